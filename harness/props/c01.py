"""C01 - the density is independent of the observer's frame.

Theorems: coq/Props/Properties_C01.v: complete for spinless three-body decays (boosts, orthogonal maps,
inversion), and for arbitrary spins the mechanism (Minkowski invariance, D* unitarity removing the
observer's rotation for 2j<=8 and all Euler angles, identical-particle symmetrisation).
Tie:
 (M) spin-0 configurations: the closed-form model is tied layer by layer (C04 layers K/Q/A/D) at p AND at Lambda p;
     since the model value is invariant by theorem, the code's two densities are pinned together;
 (I) arbitrary spins (spin-1/2 weak decay, vector->vector, 4-body parity-conserving cascades, identical particles):
     invariant masses at p and Lambda p tied to the Minkowski model; the code's densities at p and Lambda p certified
     equal (rtol 1e-7), finite and non-negative, one symmetry generator at a time (rotation, boost, rotation+boost,
     inversion, identical-particle exchange);
 (G) layer geometry: hypothesis of C01_cascade_rotation_invariant (SU(2) relation of the helicity rotations under a common
     rotation, azimuth shift of the next vertex, unchanged polar angle) certified by Coq-Interval on the code's angles."""
import copy
import math
import random

import numpy as np

import ampkit
import common
from qfmt import Rq
from rcases import real_stmt
from props import c04, c03
import amplayers

TECHNIQUE = "Coq proof (Minkowski invariance, Wigner-D unitarity 2j<=8, closed-form invariance) + layered Coq-Interval tie at p and Lambda p + certified metamorphic comparison for spinful cascades"

HEADER = c04.HEADER
RT = c04.RT


def transforms(rnd):
    ax = [rnd.uniform(-1, 1) for _ in range(3)]
    R = ampkit.rotation_matrix(ax, rnd.uniform(-3, 3))
    v = np.array([rnd.uniform(-1, 1) for _ in range(3)]); v = v / np.linalg.norm(v) * rnd.uniform(0.1, 0.9)
    return [("rotation", dict(rot=R)), ("boost", dict(boost=v)), ("rot+boost", dict(rot=R, boost=v)),
            ("inversion", dict(parity=True)), ("inversion+rot+boost", dict(parity=True, rot=R, boost=v))]


def four_body(rnd):
    mf = {"B": 0.14, "C": 0.14, "D": 0.49, "E": 0.49}; M0 = 3.1
    spins = {"A": (1, -1), "B": (0, -1), "C": (0, -1), "D": (0, -1), "E": (0, -1)}
    chains = [{"kind": "22", "R1": ("R1", 1, -1, 0.77, 0.15, ("B", "C")), "R2": ("R2", 1, -1, 1.02, 0.05, ("D", "E"))},
              {"kind": "31", "R": ("Rx", 1, 1, 1.4, 0.2), "S": ("Sx", 1, -1, 0.78, 0.15, ("B", "C")), "third": "D", "fourth": "E"}]
    return ampkit.four_body_config(M0, mf, spins, chains), M0, mf, (("B", "C"), ("D", "E"))


VCASES = []
GCASES = []
GHEADER = ("From Coq Require Import Reals.\nFrom Interval Require Import Tactic.\nFrom TFV Require Import Rot.DHom Amp.CascadeTie.\nOpen Scope R_scope.\n")


def _su2(a, b, g):
    uz = lambda t: np.array([[np.exp(-0.5j * t), 0], [0, np.exp(0.5j * t)]])  # noqa: E731
    c, s_ = math.cos(b / 2), math.sin(b / 2)
    return uz(a) @ np.array([[c, -s_], [s_, c]]) @ uz(g)


def geometry_cases(ctx, rnd, tag, config, cfg, p4, data, nev):
    """hypothesis of C01_cascade_rotation_invariant on the code's own angles: for a common rotation G = Rz(a)Ry(b)Rz(g) of all
    momenta, G * R(alpha1, beta1, 0) = R(alpha1', beta1', 0) * Rz(psi) as SU(2) matrices, where psi is the shift the code applies
    to the azimuth of the next vertex (alpha2' - alpha2, mod 2 pi / sign), and the polar angle of the next vertex is unchanged"""
    a, b, g = rnd.uniform(-3, 3), rnd.uniform(0.2, 2.9), rnd.uniform(-3, 3)
    ca, sa, cb, sb, cg, sg = math.cos(a), math.sin(a), math.cos(b), math.sin(b), math.cos(g), math.sin(g)
    Rz = lambda c, s_: np.array([[c, -s_, 0], [s_, c, 0], [0, 0, 1]])  # noqa: E731
    R = Rz(ca, sa) @ np.array([[cb, 0, sb], [0, 1, 0], [-sb, 0, cb]]) @ Rz(cg, sg)
    q4 = ampkit.lorentz_transform(p4, rot=R)
    d2 = config.data.cal_angle(q4)
    top_name = list(cfg["particle"]["$top"].keys())[0]
    for ch in data["decay"]:
        decs = [k for k in data["decay"][ch] if hasattr(k, "core")]
        tops = [d for d in decs if str(d.core) == top_name]
        if not tops:
            continue
        top = tops[0]
        subs = [d for d in decs if d.core == top.outs[0]]
        if not subs:
            continue
        sub = subs[0]

        def ang(d, dec):
            x = d["decay"][ch][dec][dec.outs[0]]["ang"]
            return [np.array(x[k], dtype=float) for k in ("alpha", "beta", "gamma")]
        A1, A1p, A2, A2p = ang(data, top), ang(d2, top), ang(data, sub), ang(d2, sub)
        for e in range(nev):
            psi = float(A2p[0][e] - A2[0][e])
            M = _su2(a, b, g) @ _su2(A1[0][e], A1[1][e], 0.0)
            N = _su2(A1p[0][e], A1p[1][e], psi)
            if abs(M + N).max() < abs(M - N).max():
                psi += 2 * math.pi  # the other sheet of SU(2): R(.., psi + 2 pi) = - R(.., psi)
                N = -N
            err = float(abs(M - N).max())
            meta = {"layer": "geometry", "config": cfg, "events": {k: v.tolist() for k, v in p4.items()}, "event": e, "chain": str(ch),
                    "rotation_euler": [a, b, g], "first_vertex_angles": [float(A1[0][e]), float(A1[1][e])],
                    "first_vertex_angles_rotated": [float(A1p[0][e]), float(A1p[1][e])], "azimuth_shift_next_vertex": psi,
                    "gamma_first_vertex": [float(A1[2][e]), float(A1p[2][e])], "su2_mismatch": err,
                    "polar_next_vertex": [float(A2[1][e]), float(A2p[1][e])]}
            cid = "G_%s_%s_e%d" % (tag, "".join(ch_ for ch_ in str(top.outs[0]) if ch_.isalnum()), e)
            ok0 = A1[2][e] == 0.0 and A1p[2][e] == 0.0
            GCASES.append((cid, "geometry_ok %s %s %s %s %s %s %s %s %s" % (Rq(1e-11), Rq(a), Rq(b), Rq(g), Rq(float(A1[0][e])), Rq(float(A1[1][e])),
                                                                    Rq(float(A1p[0][e])), Rq(float(A1p[1][e])), Rq(psi)) if ok0 else "False",
                           "geometry_tac", meta))
            GCASES.append((cid + "_pol", "(Rabs (cos %s - cos %s) <= %s)%%R" % (Rq(float(A2p[1][e])), Rq(float(A2[1][e])), Rq(1e-11)), "interval with (i_prec 90)", meta))
            ctx.count("geometry:first_vertex_relation")
            ctx.evaluations += 1
            ctx.distinct.add((tag, "geometry", str(ch), e))


def metamorphic(ctx, rnd, tag, cfg, p4, cases, parity_ok=True, swap=None, nmass=2):
    """densities at p and Lambda p on the implementation, certified close; invariant masses tied to the model"""
    from tf_pwa.config_loader import ConfigLoader
    config = ConfigLoader(cfg)
    amp = config.get_amplitude()
    pars = ampkit.random_params(amp, rnd)
    data = config.data.cal_angle(p4)
    with amplayers.VertexCapture() as cap:
        rho = np.array(amp(data))
    nev = len(rho)
    VCASES.extend(amplayers.vertex_cases(ctx, tag, cap, [0], rnd, max_comp=3, meta0={"config": cfg}))
    geometry_cases(ctx, rnd, tag, config, cfg, p4, data, min(nev, 2))
    meta0 = {"config": cfg, "params": {k: float(v) for k, v in pars.items()}, "events": {k: v.tolist() for k, v in p4.items()}}
    for e in range(nev):
        ok = math.isfinite(rho[e]) and rho[e] >= 0
        cases.append(("F_%s_e%d" % (tag, e), "(0 <= %s)%%R" % Rq(float(rho[e])) if ok else "False", "interval",
                      dict(meta0, layer="finite_nonneg", event=e, impl_density=float(rho[e]))))
    ts = transforms(rnd)
    if swap:
        ts.append(("exchange:%s<->%s" % swap, dict(swap=swap)))
    for name, kw in ts:
        if "inversion" in name and not parity_ok:
            continue
        if "swap" in kw:
            a, b = kw["swap"]
            q4 = dict(p4); q4[a], q4[b] = p4[b], p4[a]
        else:
            q4 = ampkit.lorentz_transform(p4, **kw)
        d2 = config.data.cal_angle(q4)
        rho2 = np.array(amp(d2))
        ctx.count("transform:" + name.split(":")[0])
        ctx.evaluations += nev
        for e in range(nev):
            tol = 1e-7 * max(abs(float(rho[e])), 1e-300)
            meta = dict(meta0, layer="frame_invariance", transform=name, transform_args={k: np.asarray(v).tolist() for k, v in kw.items() if k != "swap"},
                        event=e, density_p=float(rho[e]), density_Lp=float(rho2[e]))
            if not math.isfinite(rho2[e]):
                cases.append(("I_%s_%s_e%d" % (tag, name, e), "False", "interval", meta))
                continue
            cases.append(("I_%s_%s_e%d" % (tag, name.replace("+", "_").replace(":", "_").replace("<->", "_"), e),
                          "(Rabs (%s - %s) <= %s)%%R" % (Rq(float(rho2[e])), Rq(float(rho[e])), Rq(tol)), "interval with (i_prec 90)", meta))
            ctx.distinct.add((tag, name, e))
        # invariant masses of the transformed event: Minkowski model vs the code's mass at Lambda p
        if "swap" not in kw:
            pk = [k for k in d2["particle"].keys() if str(k).startswith("(")][:nmass]
            for k in pk:
                names = [x.strip() for x in str(k).strip("()").split(",")]
                for e in range(min(nev, 2)):
                    tot = "(%s)" % " + ".join("0" for _ in names)
                    vec = [sum(q4[n][e][c] for n in names) for c in range(4)]
                    # sum of the constituents' momenta is formed inside Coq
                    expr = "sqrt (mink4 (%s) (%s))" % (psum(q4, names, e), psum(q4, names, e))
                    cases.append(("M_%s_%s_%s_e%d" % (tag, name.replace("+", "_"), "".join(names), e),
                                  real_stmt(expr, float(np.array(d2["particle"][k]["m"])[e]), rtol=1e-9), RT,
                                  dict(meta0, layer="invariant_mass", transform=name, particle=str(k), event=e)))
    return pars


def permutation_cases(ctx, rnd, tag, cfg, p4, cases):
    """density under every permutation of the momenta of the declared identical particles"""
    import itertools
    from tf_pwa.config_loader import ConfigLoader
    config = ConfigLoader(cfg); amp = config.get_amplitude(); pars = ampkit.random_params(amp, rnd)
    names = cfg["data"]["identical_particles"][0]
    rho = np.array(amp(config.data.cal_angle(p4)))
    meta0 = {"config": cfg, "params": {k: float(v) for k, v in pars.items()}, "events": {k: v.tolist() for k, v in p4.items()}}
    for perm in itertools.permutations(names):
        if list(perm) == list(names):
            continue
        q4 = dict(p4)
        for a, b in zip(names, perm):
            q4[a] = p4[b]
        rho2 = np.array(amp(config.data.cal_angle(q4)))
        ctx.count("transform:permutation")
        ctx.evaluations += len(rho)
        for e in range(len(rho)):
            tol = 1e-8 * abs(float(rho[e]))
            cases.append(("X_%s_%s_e%d" % (tag, "".join(perm), e), "(Rabs (%s - %s) <= %s)%%R" % (Rq(float(rho2[e])), Rq(float(rho[e])), Rq(tol)), "interval with (i_prec 90)",
                          dict(meta0, layer="frame_invariance", transform="exchange %s->%s" % ("".join(names), "".join(perm)), event=e,
                               density_p=float(rho[e]), density_Lp=float(rho2[e]))))
            ctx.distinct.add((tag, perm, e))


def psum(p4, names, e):
    s = c04.P4q(p4[names[0]][e])
    for n in names[1:]:
        s = "(p4add %s %s)" % (s, c04.P4q(p4[n][e]))
    return s


def search(ctx, fails):
    for f in fails:
        m = f.get("input") or {}
        if m.get("layer") == "frame_invariance":
            return {"config": m["config"], "params": m["params"], "events": m["events"], "transform": m["transform"], "transform_args": m.get("transform_args"),
                    "event": m["event"], "density_p": m["density_p"], "density_Lambda_p": m["density_Lp"]}
        if m.get("layer") == "geometry" and (m["su2_mismatch"] > 1e-9 or abs(math.cos(m["polar_next_vertex"][0]) - math.cos(m["polar_next_vertex"][1])) > 1e-9
                                             or m["gamma_first_vertex"] != [0.0, 0.0]):
            return {k: m[k] for k in m if k != "layer"}
        if m.get("layer") == "finite_nonneg":
            return {"config": m["config"], "params": m["params"], "events": m["events"], "event": m["event"], "density": m["impl_density"]}
    r = c04.search(ctx, fails)
    return r


def run(ctx):
    del VCASES[:]
    del GCASES[:]
    ctx.extra_targets = ["Amp/Chain.vo", "Amp/CascadeTie.vo"]
    rnd = random.Random(ctx.seed * 1000003 + 1)
    ctx.rule = ("spin-0 three-chain configs: closed-form layers at p and at Lambda p for Lambda in {rotation, boost(|v|<=0.9), rot+boost, inversion}; spinful: spin-1/2 weak decay, "
                "vector->vector+2 scalars, vector->3 scalars through all three pairings (spins 1,2,1), 4-body vector->4 scalars via (VV) and (A->V) cascades, identical spin-0 pair: densities at p vs Lambda p, one generator at a time; "
                "distinct = distinct (config, transform, event)")
    common.theorem_stage(ctx)
    quick = ctx.tier == "quick"
    cases = []
    # (M) model-decided: spin-0
    for n in range(1 if quick else 4):
        M0, mf, res = c04.build(rnd, None, 3 if n == 0 else None)
        info = {}
        c04.run_config(ctx, rnd, "m%d_p" % n, M0, mf, res, 2, cases, info=info)
        for name, kw in transforms(rnd)[: (3 if quick else 5)]:
            if name.startswith("inversion+"):
                continue
            q4 = ampkit.lorentz_transform(info["p4"], **kw)
            info2 = {}
            c04.run_config(ctx, rnd, "m%d_%s" % (n, name.replace("+", "_")), M0, mf, res, 2, cases, p4=q4, pars=info["pars"], info=info2)
            ctx.count("model_decided_transform:" + name)
            for e in range(2):
                tol = 1e-7 * float(info["dens"][e])
                cases.append(("MI_m%d_%s_e%d" % (n, name.replace("+", "_"), e),
                              "(Rabs (%s - %s) <= %s)%%R" % (Rq(float(info2["dens"][e])), Rq(float(info["dens"][e])), Rq(tol)), "interval with (i_prec 90)",
                              {"layer": "frame_invariance", "config": info["cfg"], "params": {k: float(v) for k, v in info["pars"].items()},
                               "events": {k: v.tolist() for k, v in info["p4"].items()}, "transform": name, "event": e,
                               "density_p": float(info["dens"][e]), "density_Lp": float(info2["dens"][e])}))
    # (I) spinful configs
    cfgs = c03.configs(rnd, "quick")[1:]
    nev = 2 if quick else 4
    for tag, cfg, M0, mf, _tree in [c for c in cfgs if c[4] is None]:
        p4 = ampkit.gen_events(M0, mf, nev, rnd.randrange(10 ** 6))
        metamorphic(ctx, rnd, tag, cfg, p4, cases)
        ctx.sample({"config_tag": tag, "decay": cfg["decay"]}, cap=8)
    # vector parent -> three pseudoscalars through all three pairings (spins 1, 2, 1): the scope of C01_multi_topology_rotation_invariant
    mf = {"B": 0.14, "C": 0.14, "D": 0.49}; M0 = 3.1
    res = {"R_BC": {"pair": "R_BC", "J": 1, "P": -1, "mass": 0.77, "width": 0.15}, "R_BD": {"pair": "R_BD", "J": 2, "P": 1, "mass": 1.43, "width": 0.1},
           "R_CD": {"pair": "R_CD", "J": 1, "P": -1, "mass": 0.89, "width": 0.05}}
    cfg = ampkit.three_body_config(M0, mf, res, top=(1, -1))
    p4 = ampkit.gen_events(M0, mf, nev, rnd.randrange(10 ** 6))
    metamorphic(ctx, rnd, "vec3s", cfg, p4, cases)
    cfg, M0, mf, tree = four_body(rnd)
    p4 = ampkit.gen_tree_events(tree, mf, M0, nev, rnd.randrange(10 ** 6))
    metamorphic(ctx, rnd, "fourbody", cfg, p4, cases)
    # identical spin-0 particles C, D (same mass), resonance in BC (the code adds the exchanged term)
    mf = {"B": 0.5, "C": 0.14, "D": 0.14}; M0 = 1.9
    res = {"R_BC": {"pair": "R_BC", "J": 1, "P": -1, "mass": 0.9, "width": 0.05}, "R_CD": {"pair": "R_CD", "J": 0, "P": 1, "mass": 0.6, "width": 0.3}}
    cfg = ampkit.three_body_config(M0, mf, res, data_opts={"identical_particles": [["C", "D"]]})
    p4 = ampkit.gen_events(M0, mf, nev, rnd.randrange(10 ** 6))
    metamorphic(ctx, rnd, "identical", cfg, p4, cases, swap=("C", "D"))
    # three identical SPIN-1 particles: the exchanged amplitudes come with helicity-axis transpositions (3-cycles included)
    mf = {"B": 0.3, "C": 0.3, "D": 0.3}; M0 = 2.0
    res = {"R_BC": {"pair": "R_BC", "J": 2, "P": 1, "mass": 1.1, "width": 0.2}}
    cfg = ampkit.three_body_config(M0, mf, res, top=(1, -1), fin={k: (1, -1) for k in "BCD"}, data_opts={"identical_particles": [["B", "C", "D"]]})
    p4 = ampkit.gen_events(M0, mf, nev, rnd.randrange(10 ** 6))
    permutation_cases(ctx, rnd, "identical3", cfg, p4, cases)
    for c in cases[:: max(1, len(cases) // 4)]:
        ctx.sample({"case": c[0], "goal": c[1][:300], "layer": c[3].get("layer")}, cap=12)
    res_ = common.coq_cases(ctx, "c01", HEADER, [c[:3] for c in cases], per_file=8, case_timeout=60)
    res_.update(common.coq_cases(ctx, "c01v", amplayers.HEADER, [c[:3] for c in VCASES], per_file=6, case_timeout=90))
    res_.update(common.coq_cases(ctx, "c01g", GHEADER, [c[:3] for c in GCASES], per_file=2, case_timeout=120))
    cases = cases + VCASES + GCASES
    for cid, stmt, tac, meta in cases:
        if res_[cid] != "OK":
            ctx.fail(meta["layer"], cid, "layer %s does not check (%s)" % (meta["layer"], res_[cid]), inp=meta,
                     site="frame:" + meta["layer"] + ":" + str(meta.get("transform", "")), fingerprint=meta["layer"])
    return common.finish(ctx, search=search, technique=TECHNIQUE, extra_assumptions=[
        "cascades with spin: rotation invariance of one topology is a theorem (C01_cascade_rotation_invariant) whose geometric hypothesis (the SU(2) relation between the first-vertex "
        "angles before/after and the azimuth shift of the next vertex) is certified on the code's own angles (layer geometry); PARTIAL: several topologies interfering (alignment "
        "rotations), boosts (Wigner rotations) and the derivation of the geometric relation from the kinematic model are not theorems: decided by the certified comparison of the "
        "code with itself at p and Lambda p plus the tied layers",
        "tolerance rtol 1e-7 on densities (boosts up to |v|=0.9)"])


def replay(rep):
    return ampkit.replay_failing_input(rep)
