"""C06 - the negative log-likelihood equals its defining formula.

Theorems: coq/Props/Properties_C06.v (model coq/Lik/NLL.v).
Tie: ConfigLoader(dict).get_fcn(all_data, batch)(params) and FCN.nll_grad(params)[0] for every
likelihood model selectable by configuration, on small in-memory samples.  The likelihood layer is
isolated from the amplitude layer by capturing the implementation's own densities amp(data),
amp(phsp); every goal is a Coq-Interval goal |impl - model(captured)| <= tol, layered:
  W  : FCN.weight     = alpha-scaled blend of data and background weights
  V  : FCN.mc_weight  = normalised MC weights
  C  : FCN.get_nll    (the __call__ path) on (W, f, V, g)
  G  : FCN.get_nll_grad()[0] accumulated over the actual batches, for all batch sizes
  T  : FCN/CombineFCN total = sum of parts + Gaussian-constraint term
"""
import math
import os
import random

import numpy as np

import common
from qfmt import Rq, Rlist

TECHNIQUE = ("Coq proof (list sums, ring/field/lra, ln algebra) + Coq-Interval certified layered correspondence of every "
             "config-selectable likelihood model with the code on captured densities")

HEADER = ("From Coq Require Import Reals List Lra.\nFrom Interval Require Import Tactic.\n"
          "From TFV Require Import Base.RBase Base.Tie Base.RSum Lik.NLL Lik.NLL_proofs.\nImport ListNotations.\nOpen Scope R_scope.\n")

MODELS = ["default", "extended", "cfit", "cfit_cached", "cfit_extended", "cached_int", "cached_amp",
          "simple", "simple_clip", "simple_cfit"]
CFIT_LIKE = ("cfit", "cfit_cached", "cfit_extended", "simple_cfit")

MASSES = (2.0, [0.3, 0.4, 0.5])
LISTF = "rdot rsum map rscale rzip fst snd"
IP = "first [ interval with (i_prec 70) | interval with (i_prec 120) ]"  # second attempt: sums of ~30 logarithms of densities ~1e6 need more than 70 bits (thorough C06 s81)


# ----------------------------------------------------------------------------- inputs

def gen_p4(n, seed, masses=None):
    import tensorflow as tf
    from tf_pwa.phasespace import PhaseSpaceGenerator
    tf.random.set_seed(seed)
    g = PhaseSpaceGenerator(MASSES[0], masses or MASSES[1])
    p = np.stack([np.array(i) for i in g.generate(n)], axis=1)
    return p.reshape(-1, 4)


def gen_weights(rnd, n, kind):
    if kind == "unit":
        return None
    while True:
        if kind == "pos":
            w = [round(rnd.uniform(0.2, 2.5), 3) for _ in range(n)]
        else:  # mixed signs (sWeights-like)
            w = [round(rnd.uniform(-0.8, 2.0), 3) for _ in range(n)]
            if not any(x < 0 for x in w):
                w[rnd.randrange(n)] = -0.4
        if sum(w) > 0.25 * sum(abs(x) for x in w) and all(abs(x) >= 0.05 for x in w):
            return w


class Scenario:
    pass


def make_scenario(ctx, rnd, sid, model, ngroup, gauss, clip=False, R=1, opts=None):
    """write the sample files of one scenario and build its config dict.
    opts: scalar_bg_frac - cfit family: ONE bg_frac for all data sets (a scalar in the config, not a list);
          regroup        - the second phase hands the same ConfigLoader one data set MORE than the first phase did
                           (all per-set configuration entries are scalars then, so any number of sets is legal)"""
    opts = opts or {}
    d = os.path.join(ctx.dir, "s%03d" % sid)
    os.makedirs(d, exist_ok=True)
    s = Scenario()
    s.sid, s.model, s.ngroup, s.gauss, s.dir, s.clip = sid, model, ngroup, gauss, d, clip
    s.R = R
    s.opts = opts
    cfit = model in CFIT_LIKE
    data = {"dat_order": ["B", "C", "D"], "data": [], "phsp": []}
    s.wkind = rnd.choice(["unit", "pos", "mixed", "mixed"])
    s.vkind = rnd.choice(["unit", "pos"])
    s.bgkind = "none" if cfit else rnd.choice(["none", "const", "file", "noweight"])
    if opts.get("regroup") and s.bgkind == "file":  # a list of per-set weight files fixes the number of sets
        s.bgkind = "const"
    s.nd, s.nb, s.nm = [], [], []
    dw, vw, bgs, bgw = [], [], [], []
    extra = {k: [] for k in ("data_bg_value", "phsp_bg_value", "data_eff_value", "phsp_eff_value")}
    s.wb = round(rnd.uniform(0.1, 0.6), 3)
    for gi in range(ngroup):
        sz = getattr(ctx, "sizes", None) or (8, 25 if ctx.tier == "quick" else 33, 3, 9, 10, 31)
        nd = rnd.randrange(sz[0], sz[1])
        nb = rnd.randrange(sz[2], sz[3])
        nm = rnd.randrange(sz[4], sz[5])
        if R > 1:  # an event = R consecutive smeared samples; keep the number of samples small
            nd = R * rnd.randrange(4, 9)
            nb = R * rnd.randrange(1, 4)
        s.nd.append(nd); s.nm.append(nm); s.nb.append(nb if s.bgkind != "none" else 0)
        seed = rnd.randrange(1, 10 ** 6)
        fm = [0.3, 0.3, 0.5] if opts.get("identical") else None  # final-state masses
        f = os.path.join(d, "data%d.dat" % gi); np.savetxt(f, gen_p4(nd, seed, fm)); data["data"].append([f])
        f = os.path.join(d, "phsp%d.dat" % gi); np.savetxt(f, gen_p4(nm, seed + 1, fm)); data["phsp"].append([f])
        if opts.get("cpv"):  # events of both charges
            for key, n in (("data_charge", nd), ("phsp_charge", nm)):
                f = os.path.join(d, "%s%d.dat" % (key, gi))
                np.savetxt(f, np.array([rnd.choice([1.0, -1.0]) for _ in range(n)])); data.setdefault(key, []).append(f)
        w = gen_weights(rnd, nd // R, s.wkind)
        if R > 1:  # per-sample weights: event weight x positive smearing weights (event sums stay away from 0)
            ev = w if w is not None else [1.0] * (nd // R)
            w = [round(e * rnd.uniform(0.3, 1.0), 3) for e in ev for _ in range(R)]
        if opts.get("lowdens"):  # one data event of weight 0 (it must contribute nothing, not 0/0)
            w = list(w) if w is not None else [1.0] * nd
            w[1] = 0.0
        if w is not None:
            f = os.path.join(d, "dw%d.dat" % gi); np.savetxt(f, np.array(w)); dw.append(f)
        v = gen_weights(rnd, nm, s.vkind)
        if v is not None:
            f = os.path.join(d, "vw%d.dat" % gi); np.savetxt(f, np.array(v)); vw.append(f)
        if s.bgkind != "none":
            f = os.path.join(d, "bg%d.dat" % gi); np.savetxt(f, gen_p4(nb, seed + 2, fm)); bgs.append([f])
            if s.bgkind == "file":
                f = os.path.join(d, "bgw%d.dat" % gi)
                np.savetxt(f, np.array([round(rnd.uniform(0.05, 0.7), 3) for _ in range(nb)])); bgw.append(f)
        if cfit:
            for key, n in (("data_bg_value", nd), ("phsp_bg_value", nm), ("data_eff_value", nd), ("phsp_eff_value", nm)):
                f = os.path.join(d, "%s%d.dat" % (key, gi))
                col = [round(rnd.uniform(0.4, 1.6), 3) for _ in range(n)]
                if opts.get("lowdens") and key.startswith("data_"):  # one data event with mixture density ~1e-9 << 1e-6
                    col[0] = 1e-9
                np.savetxt(f, np.array(col)); extra[key].append(f)
    if R > 1:
        data["resolution_size"] = R
    if dw:
        data["data_weight"] = dw
    if vw:
        data["phsp_weight"] = vw
    if bgs:
        data["bg"] = bgs
        data["bg_weight"] = bgw if s.bgkind == "file" else s.wb
    if cfit:
        data.update(extra)
        if opts.get("scalar_bg_frac") or opts.get("regroup"):
            data["bg_frac"] = round(rnd.uniform(0.05, 0.4), 3)
            s.fb = [data["bg_frac"]] * (ngroup + 1)
        else:
            data["bg_frac"] = [round(rnd.uniform(0.05, 0.4), 3) for _ in range(ngroup)]
            s.fb = data["bg_frac"]
    if model in ("cfit", "cfit_cached", "cfit_extended"):
        data["model"] = "cfit"
        if model == "cfit_cached":
            data["cached_amp"] = True
        if model == "cfit_extended":
            data["extended"] = True
    elif model == "simple_cfit":
        data["model"] = "simple_cfit"
        data["extra_var"] = {"bg_value": {"default": 1}, "eff_value": {"default": 1}}
    elif model == "extended":
        data["extended"] = True
    elif model in ("cached_int", "cached_amp"):
        data[model] = True
    elif model in ("simple", "simple_clip"):
        data["model"] = model
    floatmw = model not in ("cached_int", "cached_amp")
    rbc = {"J": 1, "P": -1, "mass": round(rnd.uniform(0.85, 1.2), 3), "width": round(rnd.uniform(0.1, 0.35), 3)}
    if floatmw:
        rbc["float"] = "mg"
    s.cfg = {
        "data": data,
        "decay": {"A": [["R_BC", "D"], ["R_BD", "C"], ["R_CD", "B"]], "R_BC": ["B", "C"], "R_BD": ["B", "D"], "R_CD": ["C", "D"]},
        "particle": {
            "$top": {"A": {"J": 0, "P": -1, "mass": MASSES[0]}},
            "$finals": {"B": {"J": 0, "P": -1, "mass": 0.3}, "C": {"J": 0, "P": -1, "mass": 0.4}, "D": {"J": 0, "P": -1, "mass": 0.5}},
            "R_BC": rbc,
            "R_BD": {"J": 0, "P": 1, "mass": round(rnd.uniform(0.95, 1.3), 3), "width": round(rnd.uniform(0.15, 0.4), 3)},
            "R_CD": {"J": 1, "P": -1, "mass": round(rnd.uniform(1.0, 1.4), 3), "width": round(rnd.uniform(0.1, 0.3), 3)},
        },
        "constrains": {"particle": None, "decay": None},
    }
    # shapes used ONLY by the fixed reproducers of open findings (amplitude-layer features inside the cached models)
    if opts.get("identical"):
        s.cfg["data"]["identical_particles"] = [["B", "C"]]
        s.cfg["particle"]["$finals"]["C"]["mass"] = 0.3
        s.cfg["particle"]["R_CD"] = dict(s.cfg["particle"]["R_BD"])
    if opts.get("cpv"):
        s.cfg["decay"]["R_BC"] = ["B", "C", {"model": "gls-cpv"}]
        s.cfg["decay"]["A"][0] = ["R_BC", "D", {"model": "gls-cpv"}]
    if gauss:
        s.gc = {"A->R_BD.CR_BD->B.D_total_0r": [round(rnd.uniform(0.5, 1.5), 3), round(rnd.uniform(0.05, 0.5), 3)]}
        if floatmw and rnd.random() < 0.7:
            s.gc["R_BC_mass"] = [round(rnd.uniform(0.9, 1.1), 3), round(rnd.uniform(0.01, 0.1), 3)]
        s.cfg["constrains"]["gauss_constr"] = {k: list(v) for k, v in s.gc.items()}
    else:
        s.gc = {}
    return s


def random_point(rnd, vm, scale=1.0):
    p = {}
    for name in vm.trainable_vars:
        if name.endswith("_total_0r"):
            p[name] = rnd.uniform(0.3, 2.0) * scale
        elif name.endswith("_total_0i"):
            p[name] = rnd.uniform(-3.0, 3.0)
        elif name.endswith("_mass"):
            p[name] = float(vm.get(name)) + rnd.uniform(-0.05, 0.05)
        elif name.endswith("_width"):
            p[name] = float(vm.get(name)) * rnd.uniform(0.8, 1.25)
    return p


def arr(x):
    return [float(i) for i in np.array(x, dtype=np.float64).reshape(-1)]


def ones_like_n(n):
    return [1.0] * n


# ----------------------------------------------------------------------------- goals

def bound_frag(name, term, val, local, names, rel=1e-12, absd=0.0):
    """tactic fragment: name := term (already present in the goal), certified enclosure, then forget the body"""
    dlt = abs(val) * rel + absd
    return ("set (%s := %s); assert (H%s : %s <= %s <= %s) by (unfold %s; cbv [%s]; %s); clearbody %s; "
            % (name, term, name, Rq(val - dlt), name, Rq(val + dlt), local, names + " " + LISTF, IP, name))


def lets(**kw):
    return "".join("let %s := %s in " % (k, v) for k, v in kw.items())


def pairs(ws, xs):
    return "[" + "; ".join("(%s, %s)" % (Rlist(a), Rlist(b)) for a, b in zip(ws, xs)) + "]"


def split_batches(x, batch):
    return [x[i:i + batch] for i in range(0, len(x), batch)]


def le(stmt_model, y, tol):
    return "(Rabs (%s - %s) <= %s)%%R" % (stmt_model, Rq(y), Rq(tol))


def np_clip_log(x):
    x = np.asarray(x, dtype=np.float64)
    e = 1e-6
    d = (x - e) / e
    return np.where(x > e, np.log(np.where(x > e, x, e)), math.log(e) + d - d * d / 2)


class Part:
    """captured values of one FCN at one parameter point"""
    pass


def capture_part(model_name, fcn, amp, raw, x):
    import tensorflow as tf
    p = Part()
    fcn.model.set_params(x)
    p.W = arr(fcn.weight); p.V = arr(fcn.mc_weight)
    p.f = arr(amp(fcn.data)); p.g = arr(amp(fcn.mcdata))
    p.ws, p.bgw, p.bgn, p.v = raw
    p.R = 1
    n, m = len(p.W), len(p.V)
    if model_name in CFIT_LIKE:
        p.e = arr(fcn.data.get("eff_value", np.ones(n))); p.b = arr(fcn.data.get("bg_value", np.ones(n)))
        p.eg = arr(fcn.mcdata.get("eff_value", np.ones(m))); p.bm = arr(fcn.mcdata.get("bg_value", np.ones(m)))
    p.call = float(fcn.get_nll(x))
    p.grad_error = None
    try:
        p.gradval = float(fcn.get_nll_grad(x)[0])
    except Exception as e:
        p.gradval = None
        p.grad_error = "%s: %s" % (type(e).__name__, str(e)[:300])
    return p


def doc_value(model_name, p, fb=None):
    """independent NumPy evaluation of the DOCUMENTED formula on the captured densities (raw weights)"""
    w = np.array(list(p.ws) + (list(p.bgw) if p.bgw is not None else []))
    f = np.array(p.f); v = np.array(p.v); g = np.array(p.g)
    R = getattr(p, "R", 1)
    if R > 1:  # event = R consecutive samples: W_e = sum_j w_ej, density = sum_j w_ej f_ej / W_e, log per event
        We = w.reshape(-1, R).sum(1)
        a = We.sum() / (We * We).sum()
        if model_name in ("default", "extended"):
            fe = (w * f).reshape(-1, R).sum(1) / We
            I = (v * g).sum() / v.sum()
            return -a * ((We * np.log(fe)).sum() - We.sum() * (math.log(I) if model_name == "default" else I))
        isig = (v * np.array(p.eg) * g).sum() / v.sum(); ibg = (v * np.array(p.bm)).sum() / v.sum()
        pr = (1 - fb) * np.array(p.e) * f / isig + fb * np.array(p.b) / ibg
        return -a * (We * np.log((w * pr).reshape(-1, R).sum(1) / We)).sum()
    a = w.sum() / (w * w).sum()
    if model_name in ("default", "cached_int", "cached_amp", "simple", "simple_clip"):
        return -a * ((w * np.log(f)).sum() - w.sum() * math.log((v * g).sum() / v.sum()))
    if model_name == "extended":
        return -a * ((w * np.log(f)).sum() - w.sum() * ((v * g).sum() / v.sum()))
    e = np.array(p.e)
    isig = (v * np.array(p.eg) * g).sum() / v.sum(); ibg = (v * np.array(p.bm)).sum() / v.sum()
    pr = (1 - fb) * e * f / isig + fb * np.array(p.b) / ibg
    r = -a * (w * np.log(pr)).sum()
    if model_name == "cfit_extended":
        lam = isig / (1 - fb)
        r += -a * w.sum() * math.log(lam) + lam
    return r


def _part_goals(s, gi, pi, p, batch, fb, tag):
    """goals W, V, C, G for one FCN at one point; returns list of (cid, stmt, tac, meta)"""
    out = []
    m = s.model
    base = "%s_s%d_g%d_p%d" % (tag, s.sid, gi, pi)
    W, V, f, g = p.W, p.V, p.f, p.g
    wmax = max(abs(x) for x in W)
    # ---- layer W: FCN.weight = alpha(blend) * blend
    raw = list(p.ws) + (list(p.bgw) if p.bgw is not None else [])
    a1 = math.fsum(raw) / math.fsum(x * x for x in raw)
    bgexpr = Rlist(p.bgw) if (p.bgw is not None and s.bgkind != "noweight") else (
        "(bg_const_weights %s %d)" % (Rq(s.wb), p.bgn) if s.bgkind == "noweight" else "[]")
    stmt = lets(ws=Rlist(p.ws), bgw=bgexpr) + "(sqdist (fcn_weight ws bgw) %s <= %s)%%R" % (Rlist(W), Rq((2e-11 * wmax) ** 2))
    tac = ("intros ws bgw; cbv [fcn_weight scale_w]; "
           + bound_frag("a1", "alpha (blend ws bgw)", a1, "a1, ws, bgw", "alpha sqs blend bg_const_weights List.repeat app")
           + "unfold ws, bgw; cbv [sqdist blend bg_const_weights List.repeat app %s]; %s" % (LISTF, IP))
    out.append((base + "_W", stmt, tac, {"layer": "weights", "site": "Model.get_weight_data / FCN.__init__"}))
    # ---- layer V: FCN.mc_weight = v / sum v
    sv = math.fsum(p.v)
    stmt = lets(v=Rlist(p.v)) + "(sqdist (mc_norm v) %s <= %s)%%R" % (Rlist(V), Rq((2e-11 * max(V)) ** 2))
    tac = ("intros v; cbv [mc_norm]; " + bound_frag("sv", "rsum v", sv, "sv, v", "")
           + "unfold v; cbv [sqdist %s]; %s" % (LISTF, IP))
    out.append((base + "_V", stmt, tac, {"layer": "mc_weights", "site": "FCN.__init__ mc_weight"}))
    # ---- layers C (call) and G (value alongside the gradient; batch-independent by theorem C06_nll_batch_independent,
    #      so every batch size is tied to the same un-batched model term)
    aW = math.fsum(W) / math.fsum(x * x for x in W)
    W2 = [aW * x for x in W]
    aW2 = math.fsum(W2) / math.fsum(x * x for x in W2)
    cl = np_clip_log(f)
    sw = sum(W)
    I = float(np.dot(V, g))

    def tol_of(y, terms):
        return 1e-10 * (abs(y) + terms)

    CLIP = "clip_log_abs rmax rmin eps_clip"
    a2frag = bound_frag("a2", "alpha W", aW, "a2, W", "alpha sqs", rel=0, absd=1e-12)
    L4 = lets(W=Rlist(W), f=Rlist(f), V=Rlist(V), g=Rlist(g))
    if m in ("default", "extended", "cached_int", "cached_amp"):
        ext = "true" if m == "extended" else "false"
        intf = I if m == "extended" else math.log(I)
        scale = float(np.sum(np.abs(np.array(W) * cl))) + abs(sw * intf)
        a3frag = bound_frag("a3", "alpha (rscale a2 W)", aW2, "a3, W", "alpha sqs", rel=0, absd=1e-10)
        fin = "rewrite map_clip_log_abs; unfold W, f, V, g; cbv [%s %s int_f]; %s" % (LISTF, CLIP, IP)
        stmt = L4 + le("nll_call %s W f V g" % ext, p.call, tol_of(p.call, scale))
        tac = "intros W f V g; cbv [nll_call nll_base scale_w]; " + a2frag + a3frag + fin
        out.append((base + "_C", stmt, tac, {"layer": "call", "site": "Model.nll / BaseModel.nll"}))
        stmt = L4 + le("nll_gradval %s W f V g" % ext, p.gradval, tol_of(p.gradval, scale))
        tac = "intros W f V g; cbv [nll_gradval]; " + fin
        out.append((base + "_G", stmt, tac, {"layer": "gradval", "site": "nll_grad_batch (value)"}))
    elif m == "simple":
        scale = float(np.sum(np.abs(np.array(W) * np.log(f)))) + abs(sw * math.log(I))
        for suffix, y, site in (("_C", p.call, "BaseCustomModel.nll"), ("_G", p.gradval, "BaseCustomModel.nll_grad_batch (value)")):
            stmt = L4 + le("simple_call W f V g", y, tol_of(y, scale))
            tac = "intros W f V g; unfold W, f, V, g; cbv [simple_call %s]; %s" % (LISTF, IP)
            out.append((base + suffix, stmt, tac, {"layer": "call" if suffix == "_C" else "gradval", "site": site}))
    elif m == "simple_clip":
        scale = float(np.sum(np.abs(np.array(W) * cl))) + abs(sw * float(np_clip_log(I)))
        nf = ""
        fin = "rewrite map_clip_log_abs, (clip_log_abs_eq (rdot V g)); unfold W, f, V, g; cbv [%s %s]; %s" % (LISTF, CLIP, IP)
        for suffix, y, site in (("_C", p.call, "BaseCustomModel.nll"), ("_G", p.gradval, "BaseCustomModel.nll_grad_batch (value)")):
            stmt = L4 + le("simple_clip_call W f V g", y, tol_of(y, scale))
            tac = "intros W f V g; cbv [simple_clip_call]; " + nf + fin
            out.append((base + suffix, stmt, tac, {"layer": "call" if suffix == "_C" else "gradval", "site": site}))
    else:  # cfit family
        e = p.e
        isig = float(np.dot(V, np.array(p.eg) * np.array(g))); ibg = float(np.dot(V, p.bm))
        pr = (1 - fb) * np.array(e) * np.array(f) / isig + fb * np.array(p.b) / ibg
        lam = isig / (1 - fb)
        scale = float(np.sum(np.abs(np.array(W) * np.log(pr)))) + abs(sw * math.log(lam)) + abs(lam)
        L = lets(W=Rlist(W), e=Rlist(e), f=Rlist(f), b=Rlist(p.b), V=Rlist(V), eg=Rlist(p.eg), g=Rlist(g), bm=Rlist(p.bm))
        isf = bound_frag("isig", "rdot V (sig_of eg g)", isig, "isig, V, eg, g", "sig_of")
        ibf = bound_frag("ibg", "rdot V bm", ibg, "ibg, V, bm", "")
        fin = "unfold W, e, f, b; cbv [sig_of cfit_prob %s]; %s" % (LISTF, IP)
        finclip = ("rewrite map_clip_log_shortfall by (unfold e, f, b; cbv [shortfall rmax eps_clip sig_of cfit_prob %s]; %s); " % (LISTF, IP)) + fin
        intro = "intros W e f b V eg g bm; "
        if s.opts.get("lowdens"):
            # a mixture density below the clip threshold (an enclosure of I_sig, I_bg around a density of order 1 would be
            # amplified by 1/eps inside the branch-free clip_log_abs)
            scale = float(np.sum(np.abs(np.array(W) * np_clip_log(pr)))) + abs(sw * math.log(lam)) + abs(lam)
            if pr[0] < 1e-6 and min(pr[1:]) > 2e-6:
                # the first event is in the clip region: it keeps the branch-free clip_log (its density is tiny, so the enclosures
                # of I_sig, I_bg are harmless there), the others are certified above the threshold (NLL_proofs.map_clip_log_head)
                finclip = ("unfold e, f, b; cbv [sig_of rzip]; rewrite map_clip_log_head by (cbv [shortfall rmax eps_clip cfit_prob %s]; %s); "
                           "unfold W; cbv [cfit_prob %s %s]; %s" % (LISTF, IP, LISTF, CLIP, IP))
        if m in ("cfit", "cfit_cached"):
            # Model_cfit.nll uses clip_log like its gradient path since /repo 9a16823
            stmt = L + le("cfit_nll %s W e f b V eg g bm" % Rq(fb), p.call, tol_of(p.call, scale))
            tac = intro + "cbv [cfit_nll cfit_probs scale_w]; " + a2frag + isf + ibf + finclip
            out.append((base + "_C", stmt, tac, {"layer": "call", "site": "Model_cfit.nll"}))
            stmt = L + le("cfit_gradval %s W e f b V eg g bm" % Rq(fb), p.gradval, tol_of(p.gradval, scale))
            tac = intro + "cbv [cfit_gradval cfit_probs]; " + isf + ibf + finclip
            out.append((base + "_G", stmt, tac, {"layer": "gradval", "site": "Model_cfit.nll_grad_batch (value)"}))
        elif m == "cfit_extended":
            stmt = L + le("cfit_ext_nll %s W e f b V eg g bm" % Rq(fb), p.call, tol_of(p.call, scale))
            tac = intro + "cbv [cfit_ext_nll cfit_lambda cfit_probs scale_w]; " + a2frag + isf + ibf + finclip
            out.append((base + "_C", stmt, tac, {"layer": "call", "site": "ModelCfitExtended.nll"}))
            stmt = L + le("cfit_ext_gradval %s W e f b V eg g bm" % Rq(fb), p.gradval, tol_of(p.gradval, scale))
            tac = intro + "cbv [cfit_ext_gradval cfit_lambda cfit_probs]; " + isf + ibf + finclip
            out.append((base + "_G", stmt, tac, {"layer": "gradval", "site": "ModelCfitExtended.nll_grad_batch (value)"}))
        else:  # simple_cfit: same expression on both paths
            for suffix, y, site in (("_C", p.call, "SimpleCFitModel.nll"), ("_G", p.gradval, "SimpleCFitModel.nll_grad_batch (value)")):
                stmt = L + le("simple_cfit_call %s W e f b V eg g bm" % Rq(fb), y, tol_of(y, scale))
                tac = intro + "cbv [simple_cfit_call cfit_probs]; " + isf + ibf + fin
                out.append((base + suffix, stmt, tac, {"layer": "call" if suffix == "_C" else "gradval", "site": site}))
    return out


def part_goals(s, gi, pi, p, batch, fb, tag):
    if s.R > 1:
        return part_goals_res(s, gi, pi, p, batch, fb, tag)
    if p.gradval is None:
        q = Part(); q.__dict__.update(p.__dict__); q.gradval = 0.0
        return [c for c in _part_goals(s, gi, pi, q, batch, fb, tag) if not c[0].endswith("_G")]
    return _part_goals(s, gi, pi, p, batch, fb, tag)


RESF = "chunk chunk_fuel length firstn skipn concat app ev_weights ev_density_nz " + LISTF


def part_goals_res(s, gi, pi, p, batch, fb, tag):
    """goals W, V, C, G with resolution_size = R > 1 (models default, extended, cfit)"""
    out = []
    m, R = s.model, s.R
    base = "%s_s%d_g%d_p%d" % (tag, s.sid, gi, pi)
    W, V, f, g = p.W, p.V, p.f, p.g
    wmax = max(abs(x) for x in W)
    raw = np.array(list(p.ws) + (list(p.bgw) if p.bgw is not None else []))
    rawe = raw.reshape(-1, R).sum(1)
    a1 = math.fsum(rawe) / math.fsum(x * x for x in rawe)
    bgexpr = Rlist(p.bgw) if (p.bgw is not None and s.bgkind != "noweight") else (
        "(bg_const_weights %s %d)" % (Rq(s.wb), p.bgn) if s.bgkind == "noweight" else "[]")
    RW = "blend bg_const_weights List.repeat alpha sqs " + RESF
    stmt = lets(ws=Rlist(p.ws), bgw=bgexpr) + "(sqdist (concat (fcn_weight_res %d ws bgw)) %s <= %s)%%R" % (R, Rlist(W), Rq((2e-11 * wmax) ** 2))
    tac = ("intros ws bgw; cbv [fcn_weight_res scale_res alpha_res]; "
           + bound_frag("a1", "alpha (ev_weights (chunk %d (blend ws bgw)))" % R, a1, "a1, ws, bgw", RW)
           + "unfold ws, bgw; cbv [sqdist %s]; %s" % (RW, IP))
    out.append((base + "_W", stmt, tac, {"layer": "weights", "site": "Model.get_weight_data / FCN.__init__ (resolution_size)"}))
    sv = math.fsum(p.v)
    stmt = lets(v=Rlist(p.v)) + "(sqdist (mc_norm v) %s <= %s)%%R" % (Rlist(V), Rq((2e-11 * max(V)) ** 2))
    tac = ("intros v; cbv [mc_norm]; " + bound_frag("sv", "rsum v", sv, "sv, v", "") + "unfold v; cbv [sqdist %s]; %s" % (LISTF, IP))
    out.append((base + "_V", stmt, tac, {"layer": "mc_weights", "site": "FCN.__init__ mc_weight"}))
    Wn = np.array(W); We = Wn.reshape(-1, R).sum(1)
    aW = math.fsum(We) / math.fsum(x * x for x in We)
    sw = float(Wn.sum())
    I = float(np.dot(V, g))
    CERT = "(1 / 1000000)"
    CLIP = "clip_log_abs rmax rmin eps_clip"

    def tol_of(y, terms):
        return 1e-10 * (abs(y) + terms)

    def dens_cert(extra_unfold):
        return ("rewrite (ev_density_cert %s) by (first [ lra | (unfold W; cbv [shortfall rmax sqs %s %s]; %s) ]); " % (CERT, extra_unfold, RESF, IP))

    a2frag = bound_frag("a2", "alpha (ev_weights (chunk %d W))" % R, aW, "a2, W", "alpha sqs " + RESF, rel=0, absd=1e-12)
    if m in ("default", "extended"):
        ext = "true" if m == "extended" else "false"
        fe = (Wn * np.array(f)).reshape(-1, R).sum(1) / We
        intf = I if m == "extended" else math.log(I)
        scale = float(np.sum(np.abs(We * np.log(fe)))) + abs(sw * intf)
        L4 = lets(W=Rlist(W), f=Rlist(f), V=Rlist(V), g=Rlist(g))
        sc = "map (rscale a2) (chunk %d W)" % R
        a3frag = bound_frag("a3", "rsum (concat (%s)) / rsum (sqs (ev_weights (%s)))" % (sc, sc), 1.0, "a3, W", "sqs " + RESF, rel=0, absd=1e-10)
        stmt = L4 + le("nll_call_res %s (chunk %d W) (chunk %d f) V g" % (ext, R, R), p.call, tol_of(p.call, scale))
        # the event density is invariant under the re-applied alpha (NLL_proofs.ev_density_scaled_cert): exact literals under clip_log
        tac = ("intros W f V g; cbv [nll_call_res nll_base_res scale_res alpha_res]; " + a2frag + a3frag
               + "rewrite (ev_density_scaled_cert %s a2) by (first [ lra | (apply Rgt_not_eq; lra) | (unfold W; cbv [shortfall rmax sqs %s]; %s) ]); " % (CERT, RESF, IP)
               + "rewrite map_clip_log_abs; unfold W, f, V, g; cbv [%s %s int_f]; %s" % (RESF, CLIP, IP))
        out.append((base + "_C", stmt, tac, {"layer": "call", "site": "Model.nll / BaseModel.nll (resolution_size)"}))
        if p.gradval is not None:
            stmt = L4 + le("nll_gradval_res %s (chunk %d W) (chunk %d f) V g" % (ext, R, R), p.gradval, tol_of(p.gradval, scale))
            tac = ("intros W f V g; cbv [nll_gradval_res]; " + dens_cert("") + "rewrite map_clip_log_abs; unfold W, f, V, g; cbv [%s %s int_f]; %s" % (RESF, CLIP, IP))
            out.append((base + "_G", stmt, tac, {"layer": "gradval", "site": "nll_grad_batch (value, resolution_size)"}))
    else:  # cfit
        sd = (np.array(p.e) * np.array(f)).tolist(); sg = (np.array(p.eg) * np.array(g)).tolist()
        isig = float(np.dot(V, sg)); ibg = float(np.dot(V, p.bm))
        pr = (1 - fb) * np.array(sd) / isig + fb * np.array(p.b) / ibg
        pe = (Wn * pr).reshape(-1, R).sum(1) / We
        scale = float(np.sum(np.abs(We * np.log(pe))))
        L = lets(W=Rlist(W), s=Rlist(sd), b=Rlist(p.b), V=Rlist(V), sg=Rlist(sg), bm=Rlist(p.bm))
        isf = bound_frag("isig", "rdot V sg", isig, "isig, V, sg", "")
        ibf = bound_frag("ibg", "rdot V bm", ibg, "ibg, V, bm", "")
        intro = "intros W s b V sg bm; "
        stmt = L + le("cfit_call_res %s (chunk %d W) (chunk %d s) (chunk %d b) V sg bm" % (Rq(fb), R, R, R), p.call, tol_of(p.call, scale))
        tac = (intro + "cbv [cfit_call_res scale_res alpha_res]; " + a2frag + isf + ibf
               + "unfold W, s, b; cbv [ev_cfit_probs cfit_prob %s]; %s" % (RESF, IP))
        out.append((base + "_C", stmt, tac, {"layer": "call", "site": "Model_cfit.nll (resolution_size)"}))
        if p.gradval is not None:
            stmt = L + le("cfit_gradval_res %s (chunk %d W) (chunk %d s) (chunk %d b) V sg bm" % (Rq(fb), R, R, R), p.gradval, tol_of(p.gradval, scale))
            tac = (intro + "cbv [cfit_gradval_res]; " + isf + ibf + dens_cert("")
                   + "rewrite map_clip_log_shortfall by (unfold W, s, b; cbv [shortfall rmax eps_clip sample_probs cfit_prob %s]; %s); " % (RESF, IP)
                   + "unfold W, s, b; cbv [sample_probs cfit_prob %s]; %s" % (RESF, IP))
            out.append((base + "_G", stmt, tac, {"layer": "gradval", "site": "Model_cfit.nll_grad_batch (value, resolution_size)"}))
    return out


def gauss_expr(cs):
    return "[" + "; ".join("(%s, %s, %s)" % (Rq(t), Rq(mu), Rq(sg)) for t, mu, sg in cs) + "]"


def total_goal(cid, parts, cs, y, site):
    gt = sum((t - mu) ** 2 / sg ** 2 / 2 for t, mu, sg in cs)
    tol = 1e-11 * (sum(abs(x) for x in parts) + abs(gt) + abs(y))
    stmt = le("combine %s %s" % (Rlist(parts), gauss_expr(cs)), y, tol)
    tac = "cbv [combine gauss_term gauss_one rsum map]; %s" % IP
    return (cid, stmt, tac, {"layer": "total", "site": site})


# ----------------------------------------------------------------------------- run one scenario

def second_samples(cfg, rnd, s, sizes=None):
    """a DIFFERENT set of samples for the same ConfigLoader (its Model objects are lru_cached and therefore shared by
    every FCN built from it): other events, other sizes, other data / MC weights, non-constant bg_value / eff_value"""
    import tensorflow as tf
    from tf_pwa.phasespace import PhaseSpaceGenerator
    R = s.R
    cfit = s.model in CFIT_LIKE

    def mk(n, seed):
        tf.random.set_seed(seed)
        p = PhaseSpaceGenerator(MASSES[0], MASSES[1]).generate(n)
        return cfg.data.cal_angle([np.array(i) for i in p])

    data2, phsp2, bg2, raws2, nmax = [], [], [], [], 0
    for gi in range(s.ngroup + (1 if s.opts.get("regroup") else 0)):
        nd = R * rnd.randrange(3, 7) if R > 1 else rnd.randrange(8, 15)
        nb = R * rnd.randrange(1, 3) if R > 1 else rnd.randrange(3, 6)
        nm = rnd.randrange(10, 19)
        if sizes:
            nd, nb, nm = sizes
        seed = rnd.randrange(1, 10 ** 6)
        d, m = mk(nd, seed), mk(nm, seed + 1)
        ev = gen_weights(rnd, nd // R, "mixed")
        w = [round(e * (rnd.uniform(0.3, 1.0) if R > 1 else 1.0), 3) for e in ev for _ in range(R)]
        v = [round(rnd.uniform(0.3, 2.5), 3) for _ in range(nm)]
        d["weight"] = np.array(w, dtype=np.float64); m["weight"] = np.array(v, dtype=np.float64)
        if cfit:
            d["bg_value"] = np.array([round(rnd.uniform(0.2, 3.0), 3) for _ in range(nd)])
            d["eff_value"] = np.array([round(rnd.uniform(0.5, 1.0), 3) for _ in range(nd)])
            m["bg_value"] = np.array([round(rnd.uniform(0.2, 3.0) ** 2, 3) for _ in range(nm)])
            m["eff_value"] = np.array([round(rnd.uniform(0.5, 1.0), 3) for _ in range(nm)])
        data2.append(d); phsp2.append(m)
        if s.bgkind == "none":
            bg2.append(None); raws2.append((w, None, 0, v)); nb = 0
        else:
            b = mk(nb, seed + 2)
            if s.bgkind == "noweight":
                raws2.append((w, [-s.wb] * nb, nb, v))
            else:
                bw = [-round(rnd.uniform(0.05, 0.7), 3) for _ in range(nb)]
                b["weight"] = np.array(bw, dtype=np.float64)
                raws2.append((w, bw, nb, v))
            bg2.append(b)
        nmax = max(nmax, nd + nb)
    return (data2, phsp2, None if s.bgkind == "none" else bg2, None), raws2, nmax


def loader_inputs(cfg, s):
    """the samples of the config files as get_fcn(all_data=...) input + the raw weights (data, bg, n_bg, MC) per data set"""
    data, phsp, bg, inmc = cfg.get_all_data()
    raws = []
    bg_in = []
    for gi in range(s.ngroup):
        ws = arr(data[gi]["weight"])
        v = arr(phsp[gi]["weight"])
        if s.bgkind == "none":
            raws.append((ws, None, 0, v)); bg_in.append(None)
        elif s.bgkind == "noweight":
            b = type(bg[gi])({k: vv for k, vv in bg[gi].items() if k != "weight"})
            bg_in.append(b)
            raws.append((ws, [-s.wb] * s.nb[gi], s.nb[gi], v))
        else:
            bg_in.append(bg[gi]); raws.append((ws, arr(bg[gi]["weight"]), s.nb[gi], v))
    return (data, phsp, None if s.bgkind == "none" else bg_in, None), raws


def record_of(s, gi, batch, x, p, fb, pi, kind):
    extra = {}
    if s.model in CFIT_LIKE:
        extra = {"eff_data": p.e, "bg_value_data": p.b, "eff_mc": p.eg, "bg_value_mc": p.bm, "fcn_weight": p.W, "fcn_mc_weight": p.V}
    return {**extra, "scenario": s.sid, "model": s.model, "group": gi, "batch": batch, "params": x,
            "weights": p.ws, "bg_weights": p.bgw, "mc_weights": p.v, "density_data": p.f, "density_mc": p.g,
            "nll_call": p.call, "nll_gradval": p.gradval, "documented": float(doc_value(s.model, p, fb)), "bg_frac": fb,
            "clip": s.clip or bool(s.opts.get("lowdens")), "point": pi, "phase": kind}


def run_scenario(ctx, rnd, s, npoints, all_batches):
    from tf_pwa.config_loader import ConfigLoader
    cases, records = [], []
    cfg = ConfigLoader(s.cfg)
    amp = cfg.get_amplitude()
    all_data, raws = loader_inputs(cfg, s)
    data = all_data[0]
    ntot = [s.nd[gi] + s.nb[gi] for gi in range(s.ngroup)]
    N = max(ntot)
    batches = [1, 3, N - 1, N, N + 5]
    if s.R > 1:  # batches must contain whole events
        batches = sorted(set([s.R, 2 * s.R, N - s.R, N, N + 2 * s.R]))
    b0 = rnd.choice(batches)
    scale = 1.0
    if s.clip:  # bring the densities around the clip threshold 1e-6
        f0 = np.median(np.array(amp(data[0])))
        scale = math.sqrt(1e-6 / f0)
        cfg.set_params({k: float(v) * scale for k, v in cfg.get_params().items() if k.endswith("_total_0r")})
    keep = []
    # phases: regular parameter points; then (when Gaussian constraints are configured) a likelihood-scan point with one
    # constrained parameter FIXED away from its mean - the constraint term must stay in the NLL; then a SECOND, different
    # sample set evaluated through the same ConfigLoader (shared, lru_cached Model objects must not remember the first one)
    phases = [("point", pi) for pi in range(npoints)]
    if s.gc and not s.clip:
        phases.append(("fixed", npoints))
    if not s.clip and (ctx.tier != "quick" or s.ngroup == 1 or s.model in ("cfit", "cfit_cached") or s.opts.get("regroup")):
        phases.append(("second", npoints + 1))
    fixed = []
    for kind, pi in phases:
        if kind == "fixed":
            cand = [k for k in s.gc if k in cfg.vm.trainable_vars and len(cfg.vm.trainable_vars) > 1]
            cand.sort(key=lambda k: 0 if k.endswith("_mass") and s.model != "cached_int" else 1)
            if not cand:
                continue
            mu, sg = s.gc[cand[0]]
            cfg.vm.set_fix(cand[0], value=float(mu) + rnd.choice([-1, 1]) * rnd.uniform(0.5, 2.0) * float(sg))
            fixed.append(cand[0])
            ctx.count("phase:constraint_on_fixed_parameter")
        if kind == "second":
            all_data, raws, N2 = second_samples(cfg, rnd, s)
            b0 = rnd.choice([3, N2 - 1, N2, N2 + 5] if s.R == 1 else [s.R, 2 * s.R, N2, N2 + 2 * s.R])
            ctx.count("phase:second_sample_same_ConfigLoader")
            if s.opts.get("regroup"):
                ctx.count("phase:second_sample_one_more_data_set")
        x = random_point(rnd, cfg.vm, scale)
        if s.model in ("cached_int", "cached_amp"):
            x = {k: v for k, v in x.items() if not (k.endswith("_mass") or k.endswith("_width"))}
        others = [b for b in batches if b != b0]
        if not all_batches:
            others = [rnd.choice(others)]
        if kind != "point":
            others = []
        for bi, batch in enumerate([b0] + others):
            fcn = cfg.get_fcn(all_data=all_data, batch=batch)
            keep.append(fcn)  # the cached models key their caches by id(batch list): keep every FCN alive so ids are never reused
            fcns = fcn.fcns if hasattr(fcn, "fcns") else [fcn]
            nsets = len(all_data[0])
            if len(fcns) != nsets:  # every data set handed to get_fcn must enter the NLL (all groupings into simultaneous sets)
                stale = kind == "second" and s.opts.get("regroup")
                ctx.fails.append(dict(
                    layer="total", case="b%d_s%d_p%d_N" % (batch, s.sid, pi),
                    detail="get_fcn(all_data with %d data sets) returned %s over %d set(s): %d data set(s) silently dropped [model=%s, phase=%s]"
                           % (nsets, type(fcn).__name__, len(fcns), nsets - len(fcns), s.model, kind),
                    site="ConfigLoader.get_fcn / _get_model (one model per data set)",
                    fingerprint="model_list:" + ("stale_after_regrouping" if stale else "shorter_than_data_sets"),
                    failing_input={"config": s.cfg, "batch": batch, "phase": kind, "params": x, "n_data_sets": nsets,
                                   "n_data_sets_of_the_previous_get_fcn_on_this_ConfigLoader": s.ngroup if kind == "second" else None,
                                   "n_fcn_in_returned_object": len(fcns), "events_per_set(data+bg)": [len(r[0]) + r[2] for r in raws],
                                   "reported_nll": float(fcn(x)),
                                   "nll_of_each_set_alone(get_fcn on one set)": [
                                       float(cfg.get_fcn(all_data=tuple(None if a is None else [a[gi]] for a in all_data), batch=batch)(x))
                                       for gi in range(nsets)] if not s.gc else "not evaluated (Gaussian constraints configured)"}))
                ctx.count("model:" + s.model)
                break
            parts = []
            if bi == 0:
                ref_grad = {}
            for gi, fi in enumerate(fcns):
                fb = s.fb[gi] if s.model in CFIT_LIKE else None
                p = capture_part(s.model, fi, amp, raws[gi], x)
                p.R = s.R
                parts.append(p)
                p.call_bad = not math.isfinite(p.call)
                if p.call_bad:  # e.g. 0/0 for an event of weight 0
                    ctx.fails.append(dict(layer="call", case="b%d_s%d_g%d_p%d_C" % (batch, s.sid, gi, pi),
                                          detail="FCN.get_nll returned %r [model=%s, batch=%d, N=%d, zero-weight events: %d]"
                                                 % (p.call, s.model, batch, len(p.W), sum(1 for t in p.W if t == 0)),
                                          site="get_nll(%s)" % s.model, fingerprint=s.model + ":call_not_finite",
                                          failing_input={"config": s.cfg, "batch": batch, "params": x, "fcn_weight": p.W,
                                                         "nll_call": repr(p.call), "nll_gradval": p.gradval}))
                    p.call = 0.0
                if bi == 0:
                    gl = part_goals(s, gi, pi, p, batch, fb, "b%d" % batch)
                    if p.call_bad:
                        gl = [c for c in gl if not c[0].endswith("_C")]
                    if kind == "fixed" or (kind == "point" and pi > 0):  # same FCN weights as at the first point
                        gl = [c for c in gl if not (c[0].endswith("_W") or c[0].endswith("_V"))]
                    ref_grad[gi] = p.gradval
                else:
                    # further batch sizes: the model term of layer G does not depend on the batch split
                    # (C06_nll_batch_independent), so the value at this batch size is tied to it through the value at
                    # the first batch size: |y_b - y_b0| <= tol is a closed arithmetic goal.
                    gl = []
                    if p.gradval is not None and ref_grad.get(gi) is not None:
                        scale = float(np.sum(np.abs(np.array(p.W) * np_clip_log(p.f)))) + abs(p.gradval)
                        gl = [("b%d_s%d_g%d_p%d_B" % (batch, s.sid, gi, pi), le(Rq(p.gradval), ref_grad[gi], 1e-10 * scale), IP,
                               {"layer": "gradval", "site": "nll_grad_batch (value, batch independence)", "reference_batch": b0,
                                "value": p.gradval, "reference_value": ref_grad[gi]})]
                for c in gl:
                    c[3].update({"model": s.model, "batch": batch, "group": gi, "scenario": s.sid, "point": pi, "phase": kind})
                cases += gl
                ctx.evaluations += 2
                if p.grad_error is not None:
                    ragged = s.model == "cfit_extended" and "Shapes of all inputs must match" in p.grad_error
                    ctx.fails.append(dict(layer="implementation", case="b%d_s%d_g%d_p%d_G" % (batch, s.sid, gi, pi),
                                          detail="FCN.get_nll_grad raised %s [model=%s, batch=%d, N=%d]" % (p.grad_error, s.model, batch, len(p.W)),
                                          site="ModelCfitExtended.nll_grad_batch" if ragged else "get_nll_grad(%s)" % s.model,
                                          fingerprint="cfit_extended:ragged_batch_sw" if ragged else s.model + ":raise",
                                          failing_input={"config": s.cfg, "batch": batch, "n_events": len(p.W), "params": x, "error": p.grad_error}))
                records.append(record_of(s, gi, batch, x, p, fb, pi, kind))
            ctx.count("model:" + s.model)
            if kind != "second":
                ctx.count("batch:" + (("1" if batch == 1 else "3" if batch == 3 else "N-1" if batch == N - 1 else "N" if batch == N else "N+5") if s.R == 1 else
                                  ("R" if batch == s.R else "2R" if batch == 2 * s.R else "N-R" if batch == N - s.R else "N" if batch == N else "N+2R")))
            ctx.distinct.add((s.sid, pi, batch))
            if bi > 0:
                continue
            cs = [(float(cfg.vm.get(k)), float(mu), float(sg)) for k, (mu, sg) in s.gc.items()]
            if any(p.gradval is None or p.call_bad for p in parts):
                continue
            tot_call = float(fcn(x)); tot_grad = float(fcn.nll_grad(x)[0])
            ctx.evaluations += 2
            site = "CombineFCN" if len(fcns) > 1 else "FCN"
            cid = "b%d_s%d_p%d" % (batch, s.sid, pi)
            gt = sum((t - mu) ** 2 / sg ** 2 / 2 for t, mu, sg in cs)
            for c, pv, yv in ((total_goal(cid + "_TC", [p.call for p in parts], cs, tot_call, site + ".__call__"), [p.call for p in parts], tot_call),
                              (total_goal(cid + "_TG", [p.gradval for p in parts], cs, tot_grad, site + ".nll_grad"), [p.gradval for p in parts], tot_grad)):
                c[3].update({"model": s.model, "batch": batch, "scenario": s.sid, "point": pi, "phase": kind, "parts": pv,
                             "constraints(theta,mean,sigma)": dict(zip(s.gc.keys(), cs)), "fixed_parameters": list(fixed),
                             "reported": yv, "expected(sum of parts + Gaussian terms of ALL configured constraints)": sum(pv) + gt,
                             "params": x, "config": s.cfg if kind != "second" else "in-memory second sample set (see records)"})
                cases.append(c)
    ctx.count("resolution_size:%d" % s.R)
    ctx.count("groups:%d" % s.ngroup); ctx.count("data_weights:" + s.wkind); ctx.count("bg:" + s.bgkind)
    ctx.count("mc_weights:" + s.vkind); ctx.count("gauss:%d" % len(s.gc))
    if s.clip:
        ctx.count("clip_region")
    return cases, records


# ----------------------------------------------------------------------------- further scenario families

def run_multiconfig(ctx, rnd, sid):
    """MultiConfig = simultaneous fit of several configurations sharing one VarsManager: get_fcn() is the FIRST call made
    on the object (as in a fit script); its NLL must be the sum of the parts + the Gaussian terms of every configured constraint"""
    import copy
    from tf_pwa.config_loader import MultiConfig
    ss = [make_scenario(ctx, rnd, sid, "default", 1, True), make_scenario(ctx, rnd, sid + 500, "default", 1, True)]
    for s in ss[1:]:  # same decay model and constraints in every configuration
        s.cfg["particle"] = copy.deepcopy(ss[0].cfg["particle"])
        s.cfg["constrains"] = copy.deepcopy(ss[0].cfg["constrains"])
        s.gc = ss[0].gc
    for s in ss:
        if s.bgkind == "noweight":  # the samples are read by the configurations themselves: bg carries -bg_weight
            s.bgkind = "const"
    batch = rnd.choice([3, 7, 40])
    mc = MultiConfig([s.cfg for s in ss], total_same=True)
    fcn = mc.get_fcn(batch=batch)
    x = random_point(rnd, mc.vm)
    cases, records, parts = [], [], []
    for i, (s, fi) in enumerate(zip(ss, fcn.fcns)):
        _, raws = loader_inputs(mc.configs[i], s)
        p = capture_part("default", fi, mc.configs[i].get_amplitude(), raws[0], x)
        parts.append(p)
        gl = part_goals(s, 0, 0, p, batch, None, "mc%d" % batch)
        for c in gl:
            c[3].update({"model": "default", "batch": batch, "group": 0, "scenario": s.sid, "point": 0, "phase": "multiconfig"})
        cases += gl
        records.append(record_of(s, 0, batch, x, p, None, 0, "multiconfig"))
        ctx.evaluations += 2
    cs = [(float(mc.vm.get(k)), float(mu), float(sg)) for k, (mu, sg) in ss[0].gc.items()]
    tot_call = float(fcn(x)); tot_grad = float(fcn.nll_grad(x)[0])
    ctx.evaluations += 2
    gt = sum((t - mu) ** 2 / sg ** 2 / 2 for t, mu, sg in cs)
    cid = "mc%d_s%d_p0" % (batch, sid)
    for c, pv, yv in ((total_goal(cid + "_TC", [p.call for p in parts], cs, tot_call, "MultiConfig.get_fcn -> CombineFCN.__call__"), [p.call for p in parts], tot_call),
                      (total_goal(cid + "_TG", [p.gradval for p in parts], cs, tot_grad, "MultiConfig.get_fcn -> CombineFCN.nll_grad"), [p.gradval for p in parts], tot_grad)):
        c[3].update({"model": "multiconfig", "batch": batch, "scenario": sid, "point": 0, "phase": "multiconfig", "parts": pv,
                     "constraints(theta,mean,sigma)": dict(zip(ss[0].gc.keys(), cs)), "reported": yv,
                     "expected(sum of parts + Gaussian terms of ALL configured constraints)": sum(pv) + gt,
                     "params": x, "config": [s.cfg for s in ss], "call_order": "MultiConfig(configs, total_same=True).get_fcn(batch) first"})
        cases.append(c)
    ctx.count("model:multiconfig"); ctx.count("groups:multiconfig_2"); ctx.count("gauss:%d" % len(cs))
    ctx.distinct.add((sid, 0, batch))
    return cases, records


def run_idreuse(ctx, rnd, sid, model, iters):
    """toy loop: FCNs for two alternating same-size sample sets are built from ONE ConfigLoader, each FCN is dropped
    (del + gc.collect) before the next one is built; the value returned alongside the gradient must keep following the
    sample at hand (stand-alone value = reference; the two agree by C06_value_alongside_equals_standalone)"""
    import gc
    from tf_pwa.config_loader import ConfigLoader
    s = make_scenario(ctx, rnd, sid, model, 1, False)
    cfg = ConfigLoader(s.cfg)
    sizes = (rnd.randrange(8, 15), rnd.randrange(3, 6), 0)
    sizes = (sizes[0], sizes[1], sizes[0] + (sizes[1] if s.bgkind != "none" else 0))  # as many MC as data + bg events: any stale entry fits
    sets = [second_samples(cfg, rnd, s, sizes=sizes)[0] for _ in range(2)]
    x = random_point(rnd, cfg.vm)
    x = {k: v for k, v in x.items() if not (k.endswith("_mass") or k.endswith("_width"))}
    for it in range(iters):
        fcn = cfg.get_fcn(all_data=sets[it % 2], batch=sizes[0] + sizes[1] + 5)
        y = float(fcn.get_nll(x))
        try:
            g = float(fcn.get_nll_grad(x)[0])
        except Exception as e:
            g = "raised %s: %s" % (type(e).__name__, str(e)[-200:])
        ctx.evaluations += 2
        if isinstance(g, str) or not abs(g - y) <= 1e-8 * (abs(y) + 1.0):
            ctx.fails.append(dict(
                layer="gradval", case="idreuse_s%d_it%d" % (sid, it),
                detail="FCN number %d built from one ConfigLoader (the earlier ones deleted and collected): nll_grad()[0] = %r but __call__ = %r [model=%s]"
                       % (it + 1, g, y, model),
                site="id()-keyed caches of the cached likelihood models (opt_int.py, cfit.py Model_cfit_cached)",
                fingerprint="cached:stale_id_keyed_cache",
                failing_input={"config": s.cfg, "model": model, "params": x, "iteration": it, "sizes(data,bg,mc)": sizes,
                               "loop": "sets A,B of equal sizes alternate; fcn = cfg.get_fcn(all_data=set); fcn.get_nll_grad(x); del fcn; gc.collect()",
                               "nll_call": y, "nll_gradval": g}))
            break
        del fcn
        gc.collect()
    ctx.count("phase:fcn_rebuilt_after_gc[%s]" % model, it + 1)
    ctx.count("model:" + model)
    ctx.distinct.add((sid, 0, "idreuse"))
    return [], []


def run_open_rescale_below_clip(ctx, sid):
    """OPEN finding (fixed reproducer, independent of the run's seed): the non-extended NLL is not invariant under a common
    rescaling of all amplitudes once clip_log acts on the unnormalised density (the regular stream stays above the threshold:
    hypothesis eps < f, eps < c f of C06_nll_scale_invariant; Coq witness C06_nll_scale_below_clip_refuted)"""
    from tf_pwa.config_loader import ConfigLoader
    import bootstrap
    bootstrap.seed_all(60605)  # the loader draws the initial values of the parameters from the global generators
    rnd = random.Random(60605)
    s = make_scenario(ctx, rnd, sid, "default", 1, False)
    cfg = ConfigLoader(s.cfg)
    amp = cfg.get_amplitude()
    fcn = cfg.get_fcn(batch=7)
    x = random_point(rnd, cfg.vm)
    y0 = float(fcn(x)); g0 = float(fcn.nll_grad(x)[0])
    fmax = float(np.max(np.array(amp(fcn.data))))
    c = math.sqrt(1e-7 / fmax)  # every data density becomes <= 1e-7 < eps_clip = 1e-6
    x2 = {k: (v * c if k.endswith("_total_0r") else v) for k, v in x.items()}
    y1 = float(fcn(x2)); g1 = float(fcn.nll_grad(x2)[0])
    ctx.evaluations += 4
    ctx.count("open_finding_reproducer:rescaling_below_clip")
    if not (abs(y1 - y0) <= 1e-8 * (abs(y0) + 1) and abs(g1 - g0) <= 1e-8 * (abs(g0) + 1)):
        ctx.fails.append(dict(
            layer="rescaling", case="open_rescale_below_clip",
            detail="common rescaling of all amplitudes by %.3e (all data densities below 1e-6): NLL %r -> %r, value of nll_grad %r -> %r [model=default, not extended]"
                   % (c, y0, y1, g0, g1),
            site="clip_log applied to the unnormalised density (model.py BaseModel.nll / nll_grad_batch)",
            fingerprint="rescaling:clip_log_unnormalised",
            failing_input={"config": s.cfg, "batch": 7, "params": x, "amplitude_scale": c, "nll": y0, "nll_rescaled": y1,
                           "nll_gradval": g0, "nll_gradval_rescaled": g1, "max_density_after_rescaling": fmax * c * c}))
    return [], []


OPEN_AMP = {  # name -> (likelihood model, scenario options, site, fingerprint)
    "identical_cached_amp": ("cached_amp", {"identical": True},
                             "cached likelihood models (experimental/build_amp.py, opt_int.py) with declared identical particles",
                             "identical_particles:cached_nll_grad"),
    "cpv_cached_int": ("cached_int", {"cpv": True},
                       "cached_int (experimental/opt_int.py) with CP-violating couplings (gls-cpv) and events of both charges",
                       "cp_violation:cached_int_nll_grad"),
}


def run_open_amp(ctx, sid, name):
    """OPEN findings (fixed reproducers, independent of the run's seed): the cached likelihood models evaluate the value
    alongside the gradient with their own amplitude code, which ignores identical-particle symmetrisation, parent polarisation
    and the charge of the event (CP-violating couplings).  The regular stream contains none of these amplitude-layer features."""
    from tf_pwa.config_loader import ConfigLoader
    model, opts, site, fp = OPEN_AMP[name]
    import bootstrap
    bootstrap.seed_all(60607)
    rnd = random.Random(60607 + sorted(OPEN_AMP).index(name))
    s = make_scenario(ctx, rnd, sid, model, 1, False, opts=opts)
    cfg = ConfigLoader(s.cfg)
    amp = cfg.get_amplitude()
    all_data, raws = loader_inputs(cfg, s)
    fcn = cfg.get_fcn(all_data=all_data, batch=7)
    ctx.count("open_finding_reproducer:" + name)
    for pi in range(3):
        x = random_point(rnd, cfg.vm)
        x = {k: v for k, v in x.items() if not (k.endswith("_mass") or k.endswith("_width"))}
        if opts.get("cpv"):  # CP-violating parts of the couplings (fixed parameters of this small model: set, not fitted)
            dl = {k: round(rnd.uniform(-0.6, 0.6), 3) for k in sorted(cfg.get_params()) if k.endswith("deltar") or k.endswith("deltai")}
            cfg.set_params(dl)
            x = dict(x, **{k: v for k, v in dl.items() if k in cfg.vm.trainable_vars})
        p = capture_part(model, fcn, amp, raws[0], x)
        dv = float(doc_value(model, p))
        ctx.evaluations += 2
        if p.gradval is None or not abs(p.gradval - dv) <= 1e-8 * (abs(dv) + 1):
            ctx.fails.append(dict(
                layer="gradval", case="open_" + name,
                detail="value of nll_grad = %r, documented formula on amp() = %r, __call__ = %r [model=%s, %s]" % (p.gradval, dv, p.call, model, name),
                site=site, fingerprint=fp,
                failing_input=dict(record_of(s, 0, 7, x, p, None, pi, "open:" + name), config=s.cfg,
                                   all_parameters={k: float(v) for k, v in cfg.get_params().items()})))
            break
    return [], []


def plan(ctx, rnd):
    sc = []
    sid = 0
    quick = ctx.tier == "quick"
    reps = 1 if quick else 2
    for rep in range(reps):
        for m in MODELS:
            for ngroup in ((1, 2) if (quick or rep > 0) else (1, 2, 3)):
                gauss = (sid % 2 == 1)
                if quick and ngroup == 2 and MODELS.index(m) % 2 == 1:
                    sid += 1
                    continue
                sc.append((sid, m, ngroup, gauss, False)); sid += 1
        sc.append((sid, "default", 3, True, False)); sid += 1
        sc.append((sid, "default", 1, False, True)); sid += 1   # densities around the clip threshold
        sc.append((sid, "simple_clip", 1, False, True)); sid += 1
        # resolution_size > 1 (supported by the default/extended Model and by Model_cfit)
        for m, ng, R in ((("default", 1, 2), ("cfit", 1, 3), ("extended", 1, 3), ("cfit", 2, 2)) if quick else
                         (("default", 1, 2), ("default", 2, 3), ("extended", 1, 3), ("extended", 1, 2), ("cfit", 1, 3), ("cfit", 2, 2), ("cfit", 1, 2))):
            sc.append((sid, m, ng, sid % 2 == 0, False, R)); sid += 1
        # one bg_frac for all data sets (scalar) / one more data set handed to the same ConfigLoader in the second phase
        for m, ng, o in ((("cfit", 2, {"scalar_bg_frac": True, "regroup": True}), ("default", 1, {"regroup": True})) if quick else
                         (("cfit", 2, {"scalar_bg_frac": True}), ("cfit", 2, {"regroup": True}), ("cfit_cached", 2, {"scalar_bg_frac": True}),
                          ("cfit_extended", 3, {"scalar_bg_frac": True, "regroup": True}), ("simple_cfit", 2, {"regroup": True}),
                          ("default", 1, {"regroup": True}), ("extended", 2, {"regroup": True}), ("cached_amp", 1, {"regroup": True}),
                          ("cached_int", 2, {"regroup": True}), ("simple", 1, {"regroup": True}))):
            sc.append((sid, m, ng, sid % 2 == 0, False, 1, o)); sid += 1
        # clip region of the cfit mixture (one event of density ~1e-9) and an event of weight 0: stand-alone value = value
        # alongside the gradient there too (C06_cfit_call_equals_gradval)
        for m in ("cfit", "cfit_extended"):
            sc.append((sid, m, 1, sid % 2 == 0, False, 1, {"lowdens": True})); sid += 1
        sc.append((sid, "multiconfig", 2, True, False)); sid += 1
        for m in (("cached_amp",) if quick else ("cached_amp", "cfit_cached", "cached_int")):
            sc.append((sid, "idreuse:" + m, 1, False, False)); sid += 1
        if rep == 0:
            sc.append((sid, "open:rescale_below_clip", 1, False, False)); sid += 1
            for name in sorted(OPEN_AMP):
                sc.append((sid, "open:" + name, 1, False, False)); sid += 1
    only = os.environ.get("VERIF_ONLY")  # debugging aid: restrict to some likelihood models
    if only:
        sc = [x for x in sc if x[1].split(":")[0] in only.split(",") or x[1] in only.split(",")]
    return sc


# ----------------------------------------------------------------------------- search on break

def search(ctx, fails):
    """independent NumPy evaluation of the documented formula on the captured densities vs the reported NLL,
    then metamorphic checks on the implementation (batch sizes, common rescaling, additivity)."""
    recs = getattr(ctx, "_records", [])
    for r in recs:
        if r["clip"]:
            continue
        for key in ("nll_call", "nll_gradval"):
            y, d = r[key], r["documented"]
            if not (abs(y - d) <= 1e-8 * (abs(d) + 1.0)):
                return dict(r, check="documented formula (independent NumPy) vs implementation", observable=key,
                            implementation=y, documented_value=d)
    # batch independence / path agreement on the implementation itself
    by = {}
    for r in recs:
        by.setdefault((r["scenario"], r["group"], r.get("point"), str(sorted(r["params"].items()))), []).append(r)
    for k, rs in by.items():
        ref = rs[0]["nll_gradval"]
        for r in rs[1:]:
            if abs(r["nll_gradval"] - ref) > 1e-9 * (abs(ref) + 1):
                return dict(r, check="batch independence of FCN.nll_grad()[0]", reference_batch=rs[0]["batch"], reference=ref)
    # rescaling (one fresh default scenario)
    try:
        from tf_pwa.config_loader import ConfigLoader
        rnd = random.Random(ctx.seed * 1000003 + 6006)
        s = make_scenario(ctx, rnd, 900, "default", 1, False)
        cfg = ConfigLoader(s.cfg)
        fcn = cfg.get_fcn(batch=7)
        x = random_point(rnd, cfg.vm)
        y0 = float(fcn(x)); g0 = float(fcn.nll_grad(x)[0])
        c = 1.7
        cfg.set_params({k: float(v) * c for k, v in cfg.get_params().items() if k.endswith("_total_0r")})
        x2 = {k: (v * c if k.endswith("_total_0r") else v) for k, v in x.items()}
        y1 = float(fcn(x2)); g1 = float(fcn.nll_grad(x2)[0])
        if abs(y1 - y0) > 1e-9 * (abs(y0) + 1) or abs(g1 - g0) > 1e-9 * (abs(g0) + 1):
            return {"check": "invariance under a common rescaling of all amplitudes (not extended)", "config": s.cfg, "params": x,
                    "scale": c, "nll": y0, "nll_rescaled": y1, "nll_gradval": g0, "nll_gradval_rescaled": g1}
        if abs(y0 - g0) > 1e-9 * (abs(y0) + 1):
            return {"check": "FCN.__call__ == FCN.nll_grad()[0]", "config": s.cfg, "params": x, "call": y0, "nll_grad0": g0}
    except Exception as e:  # pragma: no cover
        ctx.notes.append("search: rescaling probe raised %r" % (e,))
    return None


# ----------------------------------------------------------------------------- entry points

class Acc:
    """picklable stand-in for Ctx inside worker processes"""
    def __init__(self, d, tier):
        self.dir, self.tier = d, tier
        self.dist, self.distinct, self.evaluations, self.fails = {}, set(), 0, []

    def count(self, key, n=1):
        self.dist[key] = self.dist.get(key, 0) + n


def _worker(args):
    d, tier, item, sseed = args
    import contextlib
    import io
    import time
    import bootstrap
    bootstrap.tf_quiet()
    import tensorflow as tf
    try:  # tiny tensors: one thread per worker process is fastest and keeps the machine usable
        tf.config.threading.set_intra_op_parallelism_threads(1)
        tf.config.threading.set_inter_op_parallelism_threads(1)
    except RuntimeError:
        pass
    sid, m, ngroup, gauss, clip = item[:5]
    R = item[5] if len(item) > 5 else 1
    opts = item[6] if len(item) > 6 else None
    acc = Acc(d, tier)
    srnd = random.Random(sseed)
    t0 = time.time()
    try:
        with contextlib.redirect_stdout(io.StringIO()):
            if m == "multiconfig":
                cs, rs = run_multiconfig(acc, srnd, sid)
            elif m.startswith("idreuse:"):
                cs, rs = run_idreuse(acc, srnd, sid, m.split(":")[1], 30 if m.endswith("cached_int") else 40 if tier == "quick" else 80)
            elif m == "open:rescale_below_clip":
                cs, rs = run_open_rescale_below_clip(acc, sid)
            elif m.startswith("open:"):
                cs, rs = run_open_amp(acc, sid, m.split(":")[1])
            else:
                s = make_scenario(acc, srnd, sid, m, ngroup, gauss, clip, R, opts)
                cs, rs = run_scenario(acc, srnd, s, 1 if tier == "quick" else 2, all_batches=((ngroup == 1 and m not in ("cached_int", "cached_amp", "cfit_cached")) or tier != "quick"))
        return {"item": item, "cases": cs, "records": rs, "dist": acc.dist, "distinct": acc.distinct, "evaluations": acc.evaluations,
                "error": None, "dt": time.time() - t0, "fails": acc.fails}
    except Exception:
        import traceback
        return {"item": item, "cases": [], "records": [], "dist": acc.dist, "distinct": acc.distinct, "evaluations": acc.evaluations,
                "error": traceback.format_exc()[-1500:], "dt": time.time() - t0, "fails": acc.fails}


def run(ctx):
    import multiprocessing
    from concurrent.futures import ProcessPoolExecutor
    rnd = random.Random(ctx.seed * 1000003 + 6)
    ctx.rule = ("seeded scenarios: likelihood model x 1-3 simultaneous data sets x {unit,positive,mixed-sign} data weights x "
                "{no bg, bg_weight constant, per-event bg weights, bg without weights -> -w_bkg} x {unit,weighted} MC x Gaussian constraints; "
                "8-32 data, 3-8 bg, 10-30 MC events per set; random parameter point (couplings, mass, width); one Coq-Interval goal per layer "
                "(W,V,C,G) per data set + totals, and the value alongside the gradient for batch sizes from {1,3,N-1,N,N+5} "
                "(all five for single data sets); distinct = (scenario, point, batch).  Further families: per-set configuration entries "
                "given as ONE scalar (cfit bg_frac) with 2-3 data sets; a second phase handing the SAME ConfigLoader one data set more "
                "(every data set must get its FCN); MultiConfig([2 configs], total_same).get_fcn() as first call (sum of parts + all "
                "Gaussian terms); toy loop of 40 FCNs rebuilt from one ConfigLoader after del + gc.collect for the cached models.  "
                "Stated exclusions of the regular stream (each with ONE fixed reproducer reported as open finding): densities below the "
                "clip threshold 1e-6 under a common rescaling (hypothesis of C06_nll_scale_invariant); identical particles and "
                "CP-violating couplings inside the cached models (amplitude-layer features; the likelihood layer takes densities as inputs)")
    common.theorem_stage(ctx)
    items = [(ctx.dir, ctx.tier, it, rnd.randrange(1 << 60)) for it in plan(ctx, rnd)]
    # heavier scenarios first
    items.sort(key=lambda a: -a[2][2] if a[2][2] > 1 else -5)
    nw = max(1, min(int(os.environ.get("VERIF_PY_JOBS", "8")), len(items)))
    cases, records = [], []
    # a fresh pool per slice of the plan: workers that ran many scenarios grew to 5-11 GB each (TF graph and trace caches) and
    # were killed by the kernel in the thorough tier; max_tasks_per_child deadlocks in Python 3.12.1, so the pool is recycled by hand
    results = []
    for i0 in range(0, len(items), nw * 3):
        with ProcessPoolExecutor(max_workers=nw, mp_context=multiprocessing.get_context("spawn")) as ex:
            results += list(ex.map(_worker, items[i0:i0 + nw * 3]))
    results.sort(key=lambda r: r["item"][0])
    for r in results:
        sid, m, ngroup, gauss, clip = r["item"][:5]
        for k, v in r["dist"].items():
            ctx.count(k, v)
        ctx.distinct |= r["distinct"]
        ctx.evaluations += r["evaluations"]
        for f in r["fails"]:
            ctx.fail(f.pop("layer"), f.pop("case"), f.pop("detail"), **f)
        if r["error"]:
            ctx.fail("implementation", "s%d" % sid, "model %s raised: %s" % (m, r["error"]),
                     site="get_fcn(%s)" % m, fingerprint=m + ":raise", failing_input=None)
            continue
        cases += r["cases"]; records += r["records"]
    slow = sorted(results, key=lambda r: -r["dt"])[:3]
    ctx.log("implementation stage: %d scenarios, %d goals; slowest: %s" % (
        len(results), len(cases), ", ".join("s%d %s x%d %.0fs" % (r["item"][0], r["item"][1], r["item"][2], r["dt"]) for r in slow)))
    ctx._records = records
    for c in cases[:: max(1, len(cases) // 5)]:
        ctx.sample({"case": c[0], "goal": c[1][:300] + " ...", "meta": {k: v for k, v in c[3].items() if k in ("layer", "site", "model", "batch")}})
    res = common.coq_cases(ctx, "nll", HEADER, [c[:3] for c in cases], per_file=max(3, len(cases) // 64 + 1), case_timeout=120)
    rec_by = {}
    for r in records:
        rec_by[(r["scenario"], r["group"], r["batch"], r.get("point"))] = r
    for cid, stmt, tac, meta in cases:
        if res[cid] != "OK":
            r = rec_by.get((meta.get("scenario"), meta.get("group", 0), meta.get("batch"), meta.get("point")))
            fi = None
            if r is not None and meta["layer"] in ("call", "gradval") and not r["clip"]:
                key = "nll_call" if meta["layer"] == "call" else "nll_gradval"
                if abs(r[key] - r["documented"]) > 1e-8 * (abs(r["documented"]) + 1):
                    fi = dict(r, check="documented formula (independent NumPy) vs implementation", observable=key)
            if fi is None and meta["layer"] == "total":
                fi = dict({k: v for k, v in meta.items() if k not in ("layer", "site")},
                          check="%s = sum of the parts + Gaussian-constraint term of every configured constraint (free or fixed)" % meta["site"])
            site, fp = meta["site"], "%s:%s" % (meta.get("model"), meta["layer"])
            if r is not None and meta.get("model") == "cfit_cached" and meta["layer"] == "gradval":
                # known shape of defect F11: efficiency missing in the signal normalisation integral
                W_, V_ = np.array(r["fcn_weight"]), np.array(r["fcn_mc_weight"])
                pr = ((1 - r["bg_frac"]) * np.array(r["eff_data"]) * np.array(r["density_data"]) / float(np.dot(V_, r["density_mc"]))
                      + r["bg_frac"] * np.array(r["bg_value_data"]) / float(np.dot(V_, r["bg_value_mc"])))
                alt = -float(np.sum(W_ * np.log(pr)))
                if abs(alt - r["nll_gradval"]) <= 1e-9 * (abs(alt) + 1):
                    site, fp = "Model_cfit_cached.nll_grad_batch", "cfit_cached:eff_missing_in_int_sig"
                    if fi is not None:
                        fi["explanation"] = "value equals the mixture with I_sig = sum V*amp (efficiency omitted): %r" % alt
            ctx.fail(meta["layer"], cid, "implementation value not within tolerance of the model (%s) [%s, model=%s, batch=%s]"
                     % (res[cid], meta["site"], meta.get("model"), meta.get("batch")),
                     inp={k: v for k, v in meta.items()}, site=site, fingerprint=fp,
                     failing_input=fi)
    return common.finish(ctx, search=search, technique=TECHNIQUE, extra_assumptions=[
        "densities f_i = amp(x_i), g_j = amp(y_j) are the implementation's own outputs (amplitude layer: C01-C05); cached_int/cached_amp/cfit_cached are compared against amp() within the NLL tolerance",
        "real-number model; float rounding absorbed by tolerance 1e-10 x (|value| + sum of |terms|); weights 1e-12 relative",
        "inject_mc (Model_new), constr_frac / cfit_constr_frac / simple_chi2, using_mix_likelihood and `extended: True` combined with simple / simple_clip / cached_amp / cached_int (silently not extended) are not covered",
        "the model describes the code with /verif/build/fix_C06/patch_{1,2,3,4,10}.diff applied",
    ])


def replay(rep):
    import json
    fi = rep.get("failing_input")
    print(json.dumps({k: v for k, v in rep.items() if k != "failing_input"}, indent=1, default=str))
    if fi and "density_data" in fi:
        p = Part()
        p.ws, p.bgw, p.v, p.f, p.g = fi["weights"], fi["bg_weights"], fi["mc_weights"], fi["density_data"], fi["density_mc"]
        if fi["model"] in ("default", "extended", "cached_int", "cached_amp", "simple", "simple_clip"):
            print("documented formula on the stored densities:", doc_value(fi["model"], p), " implementation reported:",
                  fi.get("nll_call"), fi.get("nll_gradval"))
        else:
            print("documented:", fi.get("documented"), " implementation reported:", fi.get("nll_call"), fi.get("nll_gradval"))
    elif fi:
        print(json.dumps(fi, indent=1, default=str))
    return 0
