"""C07 - returned gradients and Hessians are the true derivatives of the returned NLL.

Theorems: coq/Props/Properties_C07.v (model coq/Lik/Grad.v): Coquelicot is_derive for the hand-written
chain rules.  Tie: for small models the harness captures per-event f_i, d_k f_i, d_k d_l f_i from
tf.GradientTape applied to the amplitude ALONE (oracle: TF differentiates amp correctly; cross-checked
here by 5-point central differences) and checks, with Coq-Interval goals,
  G  : FCN.get_nll_grad gradient        vs grad_default / grad_cfit / grad_cfit_ext on the captured values
  H  : FCN.get_nll_grad_hessian Hessian vs hess_default / hess_cfit / hess_cfit_ext
  T  : FCN/CombineFCN totals (sum of parts + Gaussian-constraint gradient / Hessian), value alongside = stand-alone
  P  : FCN.grad_hessp = (H + H_c) p and its gradient = nll_grad's gradient (every model, the cfit family included)
  B  : gradient for other batch sizes = gradient at the first batch size
  X  : VarsManager.trans_fcn_grad / trans_f_grad_hess / trans_grad_hessp and Bound.get_x2y/get_dydx/get_d2ydx2
  L  : event densities below the clip threshold 1e-6 / an event of weight 0: value alongside = stand-alone value, gradient and
       Hessian = Richardson finite differences of the implementation's own stand-alone value / gradient (no per-event tie)
  fg : fit_improve.Cached_FG (value, scaled gradient, NaN components replaced by the central difference Grad.fd_central)
Gaussian constraints are collected per variable cell: a constraint keyed by the non-head name of a var_equal pair acts on the
trainable head (Grad.gauss_cell_grad / gauss_cell_hess), several constraints on one cell add up.
"""
import math
import os
import random

import numpy as np

import common
from qfmt import Rq, Rlist
from props import c06

TECHNIQUE = ("Coq proof (Coquelicot is_derive for gradient, Hessian, H.p, cfit/extended chain rules, Gaussian constraints, bound transforms) "
             "+ Coq-Interval certified correspondence of the returned gradients/Hessians with the formulas on TF-captured per-event derivatives")

HEADER = ("From Coq Require Import Reals List.\nFrom Interval Require Import Tactic.\n"
          "From TFV Require Import Base.RBase Base.Tie Base.RSum Lik.NLL Lik.Grad.\nImport ListNotations.\nOpen Scope R_scope.\n")
LISTF = c06.LISTF
IP = "first [ interval with (i_prec 70) | interval with (i_prec 120) ]"  # second attempt: sums of ~30 logarithms of densities ~1e6 need more than 70 bits (thorough C06 s81)
MODELS = ["default", "extended", "cfit", "cfit_extended", "cfit_cached", "cached_int", "cached_amp", "simple", "simple_clip", "simple_cfit"]
CFIT_LIKE = c06.CFIT_LIKE
RTOL, ATOL = 1e-7, 1e-9


def arr(x):
    return [float(i) for i in np.array(x, dtype=np.float64).reshape(-1)]


def lets(pairs):
    return "".join("let %s := %s in " % (k, v) for k, v in pairs)


def le(model, y, tol):
    return "(Rabs (%s - %s) <= %s)%%R" % (model, Rq(y), Rq(tol))


# ----------------------------------------------------------------------------- capture

def capture_derivs(amp, data, var):
    """per-event value, gradient and Hessian of the amplitude ALONE: nested tf.GradientTape with one-hot
    output gradients (TF autodiff = the oracle of C07; never the likelihood code)"""
    import tensorflow as tf
    K = len(var)
    with tf.GradientTape(persistent=True) as t2:
        with tf.GradientTape(persistent=True) as t1:
            f = amp(data)
        N = int(f.shape[0])
        eye = tf.eye(N, dtype=f.dtype)
        Js = [t1.gradient(f, var, output_gradients=eye[i], unconnected_gradients="zero") for i in range(N)]
    J = np.array([[float(Js[i][k]) for i in range(N)] for k in range(K)])
    H = np.zeros((K, K, N))
    for i in range(N):
        for k in range(K):
            row = t2.gradient(Js[i][k], var, unconnected_gradients="zero")
            for l in range(K):
                H[k][l][i] = float(row[l])
    del t1, t2
    return np.array(f, dtype=np.float64), J, H


def fd_check(amp, data, vm, var_names, J, h=1e-4):
    """5-point central differences of amp(data) w.r.t. every trainable parameter vs the tape gradient"""
    x0 = [float(vm.get(n)) for n in var_names]
    worst = 0.0
    for k, n in enumerate(var_names):
        vals = []
        for s in (-2, -1, 1, 2):
            vm.set(n, x0[k] + s * h)
            vals.append(np.array(amp(data), dtype=np.float64))
        vm.set(n, x0[k])
        fd = (vals[0] - 8 * vals[1] + 8 * vals[2] - vals[3]) / (12 * h)
        err = np.max(np.abs(fd - J[k]) / (np.abs(J[k]) + 1e-3 * np.max(np.abs(J[k])) + 1e-12))
        worst = max(worst, float(err))
    return worst


class Part:
    pass


def capture_part(model_name, fcn, amp, x, batch, want_hess=True):
    p = Part()
    fcn.model.set_params(x)
    var = fcn.vm.trainable_variables
    p.W = arr(fcn.weight); p.V = arr(fcn.mc_weight)
    p.f, p.J, p.H = capture_derivs(amp, fcn.data, var)
    p.g, p.Jg, p.Hg = capture_derivs(amp, fcn.mcdata, var)
    n, m = len(p.W), len(p.V)
    if model_name in CFIT_LIKE:
        # simple_cfit reads the data-side efficiency "eff_value" like the other cfit models (after fix_C06/patch_4; the old code read the
        # misspelled key "err_value", i.e. efficiency 1 on the data side)
        p.e = np.array(arr(fcn.data.get("eff_value", np.ones(n))))
        p.b = np.array(arr(fcn.data.get("bg_value", np.ones(n))))
        p.eg = np.array(arr(fcn.mcdata.get("eff_value", np.ones(m)))); p.bm = np.array(arr(fcn.mcdata.get("bg_value", np.ones(m))))
    nll, g = fcn.get_nll_grad(x)
    p.nll_g = float(nll); p.grad = arr(g)
    if want_hess:
        nll, g, h = fcn.get_nll_grad_hessian(x, batch)
        p.nll_h = float(nll); p.grad_h = arr(g); p.hess = np.array(h, dtype=np.float64)
    return p


# ----------------------------------------------------------------------------- goals

def part_goals(ctx, s, gi, p, fb, names, hess_pairs, tag):
    out = []
    m = s.model
    K = len(names)
    W, V, f, g = p.W, p.V, p.f, p.g
    base = "%s_s%d_g%d" % (tag, s.sid, gi)
    sw = sum(W)
    # resolution_size = R > 1: the formulas apply at EVENT level, W_e = sum_j w_ej, x_e = sum_j w_ej x_ej / W_e
    # (the folding commutes with d/dtheta; it is evaluated inside Coq from the flat per-sample lists)
    R = getattr(s, "R", 1)
    Wn = np.array(W)
    if R > 1:
        WE = Wn.reshape(-1, R).sum(1)
        fold = lambda x: (Wn * np.array(x)).reshape(-1, R).sum(1) / WE
        WX = "(ev_weights (chunk %d W))" % R
        EV = lambda n: "(ev_density_nz (chunk %d W) (chunk %d %s))" % (R, R, n)
        LF = c06.RESF
    else:
        WE, fold, WX, EV, LF = Wn, (lambda x: np.array(x)), "W", (lambda n: n), LISTF
    fE = fold(f)
    if m not in CFIT_LIKE:
        ext = "true" if m == "extended" else "false"
        I = float(np.dot(V, g))
        common_lets = [("W", Rlist(W)), ("f", Rlist(f)), ("V", Rlist(V)), ("g", Rlist(g))]
        for k in range(K):
            dk, gk = p.J[k], p.Jg[k]
            scale = float(np.sum(np.abs(WE * fold(dk) / fE))) + abs(sw * float(np.dot(V, gk)) / (I if m != "extended" else 1.0))
            stmt = lets(common_lets + [("dk", Rlist(dk)), ("gk", Rlist(gk))]) + le("grad_default %s %s %s %s V g gk" % (ext, WX, EV("f"), EV("dk")), p.grad[k], ATOL + RTOL * scale)
            tac = "intros W f V g dk gk; unfold W, f, V, g, dk, gk; cbv [grad_default int_g %s]; %s" % (LF, IP)
            out.append((base + "_G%d" % k, stmt, tac, {"layer": "gradient", "site": "nll_grad_batch", "param": names[k], "impl": p.grad[k]}))
        for (k, l) in hess_pairs:
            dk, dl, d2 = p.J[k], p.J[l], p.H[k][l]
            gk, gl, g2 = p.Jg[k], p.Jg[l], p.Hg[k][l]
            t1 = WE * (fold(d2) / fE - fold(dk) * fold(dl) / fE ** 2)
            scale = float(np.sum(np.abs(t1))) + abs(sw) * (abs(float(np.dot(V, g2))) / (I if m != "extended" else 1.0)
                                                           + (abs(float(np.dot(V, gk)) * float(np.dot(V, gl))) / I ** 2 if m != "extended" else 0.0))
            stmt = lets(common_lets + [("dk", Rlist(dk)), ("dl", Rlist(dl)), ("d2", Rlist(d2)), ("gk", Rlist(gk)), ("gl", Rlist(gl)), ("g2", Rlist(g2))]) \
                + le("hess_default %s %s %s %s %s %s V g gk gl g2" % (ext, WX, EV("f"), EV("dk"), EV("dl"), EV("d2")), p.hess[k][l], ATOL + RTOL * scale)
            tac = ("intros W f V g dk dl d2 gk gl g2; unfold W, f, V, g, dk, dl, d2, gk, gl, g2; cbv [hess_default hterms int_g int_h %s]; %s" % (LF, IP))
            out.append((base + "_H%d_%d" % (k, l), stmt, tac, {"layer": "hessian", "site": "nll_grad_hessian", "param": (names[k], names[l]), "impl": float(p.hess[k][l])}))
    else:
        extm = m == "cfit_extended"
        c1 = 1 - fb
        sd = p.e * f                    # s_i on data
        sg = p.eg * g                   # s_j on MC
        I = float(np.dot(V, sg)); Ibg = float(np.dot(V, p.bm))
        c2 = fb * fold(p.b) / Ibg       # harness-side constant part, certified below against I_bg
        sE = fold(sd)
        P = c1 * sE / I + c2
        # layer: c2_i = f_bg * bg_i / I_bg  (one goal, squared distance)
        stmt = lets([("W", Rlist(W)), ("V", Rlist(V)), ("bm", Rlist(p.bm)), ("b", Rlist(p.b))]) + \
            "(sqdist (map (fun x => %s * x / rdot V bm) %s) %s <= %s)%%R" % (Rq(fb), EV("b"), Rlist(c2), Rq((1e-11 * max(abs(c2))) ** 2))
        tac = "intros W V bm b; unfold W, V, bm, b; cbv [sqdist %s]; %s" % (LF, IP)
        out.append((base + "_C2", stmt, tac, {"layer": "cfit_bg_term", "site": "Model_cfit prob"}))
        common_lets = [("W", Rlist(W)), ("s", Rlist(sd)), ("c2", Rlist(c2)), ("V", Rlist(V)), ("sg", Rlist(sg))]
        If = c06.bound_frag("I", "rdot V sg", I, "I, V, sg", "")
        gname, hname = ("grad_cfit_ext", "hess_cfit_ext") if extm else ("grad_cfit", "hess_cfit")
        for k in range(K):
            dsk = p.e * p.J[k]; dsgk = p.eg * p.Jg[k]
            dIk = float(np.dot(V, dsgk))
            dP = c1 * (fold(dsk) * I - sE * dIk) / I ** 2
            scale = float(np.sum(np.abs(WE * dP / P))) + (abs(sw * dIk / I) + abs(dIk / c1) if extm else 0.0) \
                + float(np.sum(np.abs(WE * c1 * fold(dsk) / I / P)))
            stmt = lets(common_lets + [("dsk", Rlist(dsk)), ("dsgk", Rlist(dsgk))]) + \
                le("%s %s %s %s %s c2 (rdot V sg) (rdot V dsgk)" % (gname, Rq(c1), WX, EV("s"), EV("dsk")), p.grad[k], ATOL + RTOL * scale)
            tac = ("intros W s c2 V sg dsk dsgk; cbv [grad_cfit_ext grad_cfit]; " + If
                   + c06.bound_frag("dIk", "rdot V dsgk", dIk, "dIk, V, dsgk", "", absd=1e-13 * float(np.sum(np.abs(np.array(V) * dsgk))))
                   + "unfold W, s, c2, dsk; cbv [cfit_P cfit_dP %s]; %s" % (LF, IP))
            out.append((base + "_G%d" % k, stmt, tac, {"layer": "gradient", "site": "cfit nll_grad_batch", "param": names[k], "impl": p.grad[k]}))
        for (k, l) in hess_pairs:
            dsk, dsl, d2s = p.e * p.J[k], p.e * p.J[l], p.e * p.H[k][l]
            gk_, gl_, g2_ = p.eg * p.Jg[k], p.eg * p.Jg[l], p.eg * p.Hg[k][l]
            dIk, dIl, d2I = float(np.dot(V, gk_)), float(np.dot(V, gl_)), float(np.dot(V, g2_))
            dPk = c1 * (fold(dsk) * I - sE * dIk) / I ** 2; dPl = c1 * (fold(dsl) * I - sE * dIl) / I ** 2
            parts = [fold(d2s) / I, (fold(dsk) * dIl + fold(dsl) * dIk) / I ** 2, sE * d2I / I ** 2, 2 * sE * dIk * dIl / I ** 3]
            scale = float(np.sum(np.abs(WE) * (c1 * sum(np.abs(q) for q in parts) / P + np.abs(dPk * dPl) / P ** 2)))
            if extm:
                scale += abs(sw) * (abs(d2I / I) + abs(dIk * dIl / I ** 2)) + abs(d2I / c1)
            stmt = lets(common_lets + [("dsk", Rlist(dsk)), ("dsl", Rlist(dsl)), ("d2s", Rlist(d2s)), ("gk", Rlist(gk_)), ("gl", Rlist(gl_)), ("g2", Rlist(g2_))]) + \
                le("%s %s %s %s %s %s %s c2 (rdot V sg) (rdot V gk) (rdot V gl) (rdot V g2)" % (hname, Rq(c1), WX, EV("s"), EV("dsk"), EV("dsl"), EV("d2s")), p.hess[k][l], ATOL + RTOL * scale)
            ad = lambda t: 1e-13 * float(np.sum(np.abs(np.array(V) * t)))
            tac = ("intros W s c2 V sg dsk dsl d2s gk gl g2; cbv [hess_cfit_ext hess_cfit]; " + If
                   + c06.bound_frag("dIk", "rdot V gk", dIk, "dIk, V, gk", "", absd=ad(gk_))
                   + c06.bound_frag("dIl", "rdot V gl", dIl, "dIl, V, gl", "", absd=ad(gl_))
                   + c06.bound_frag("d2I", "rdot V g2", d2I, "d2I, V, g2", "", absd=ad(g2_))
                   + "unfold W, s, c2, dsk, dsl, d2s; cbv [hterms cfit_P cfit_dP cfit_d2P %s]; %s" % (LF, IP))
            out.append((base + "_H%d_%d" % (k, l), stmt, tac, {"layer": "hessian", "site": "cfit nll_grad_hessian", "param": (names[k], names[l]), "impl": float(p.hess[k][l])}))
    return out


def arith(cid, expr, y, tol, meta):
    return (cid, le(expr, y, tol), "cbv [grad_total hess_total hessp_total row_dot gauss_grad gauss_hess gauss_cell gauss_cell_grad gauss_cell_hess %s]; %s" % (LISTF, IP), meta)


# ----------------------------------------------------------------------------- one scenario

def run_scenario(ctx, rnd, s, opts):
    from tf_pwa.config_loader import ConfigLoader
    import tensorflow as tf
    cases, records = [], []
    cfg = ConfigLoader(s.cfg)
    amp = cfg.get_amplitude()
    data, phsp, bg, inmc = cfg.get_all_data()
    bg_in = None
    if s.bgkind != "none":
        bg_in = [type(b)({k: v for k, v in b.items() if k != "weight"}) if s.bgkind == "noweight" else b for b in bg]
    all_data = (data, phsp, bg_in, None)
    N = max(s.nd[gi] + s.nb[gi] for gi in range(s.ngroup))
    batches = [1, 3, N - 1, N, N + 5]
    b0 = rnd.choice([3, N - 1, N, N + 5])
    R = getattr(s, "R", 1)
    if R > 1:  # batches of whole events
        batches = sorted(set([R, 2 * R, N - R, N, N + 2 * R]))
        b0 = rnd.choice(batches[1:])
    x = c06.random_point(rnd, cfg.vm)
    if s.model in ("cached_int",):
        x = {k: v for k, v in x.items() if not (k.endswith("_mass") or k.endswith("_width"))}
    keep = []
    fcn = cfg.get_fcn(all_data=all_data, batch=b0); keep.append(fcn)
    fcns = fcn.fcns if hasattr(fcn, "fcns") else [fcn]
    names = list(cfg.vm.trainable_vars)
    K = len(names)
    fcn.vm.set_all(x) if hasattr(fcn.vm, "set_all") else None
    xl = [float(cfg.vm.get(n)) for n in names]
    allpairs = [(k, l) for k in range(K) for l in range(k, K)]
    hess_pairs = allpairs if (ctx.tier != "quick" or len(allpairs) <= 6) else sorted(rnd.sample(allpairs, 6))
    parts = []
    for gi, fi in enumerate(fcns):
        fb = s.fb[gi] if s.model in CFIT_LIKE else None
        p = capture_part(s.model, fi, amp, x, b0)
        parts.append(p)
        gl = part_goals(ctx, s, gi, p, fb, names, hess_pairs, "b%d" % b0)
        # symmetry and value-alongside of the part
        hs = p.hess
        asym = float(np.max(np.abs(hs - hs.T))); hmax = float(np.max(np.abs(hs)))
        gl.append(arith("b%d_s%d_g%d_SYM" % (b0, s.sid, gi), Rq(asym), 0.0, ATOL + RTOL * hmax, {"layer": "hessian", "site": "nll_grad_hessian (symmetry)"}))
        gl.append(arith("b%d_s%d_g%d_VAL" % (b0, s.sid, gi), Rq(p.nll_h), p.nll_g, 1e-9 * (abs(p.nll_g) + 1),
                        {"layer": "value", "site": "nll_grad_hessian value vs nll_grad value"}))
        gmax = max(abs(t) for t in p.grad)
        for k in range(K):
            gl.append(arith("b%d_s%d_g%d_GH%d" % (b0, s.sid, gi, k), Rq(p.grad_h[k]), p.grad[k], ATOL + RTOL * gmax,
                            {"layer": "gradient", "site": "nll_grad_hessian gradient vs nll_grad gradient", "param": names[k]}))
        for c in gl:
            c[3].update({"model": s.model, "batch": b0, "group": gi, "scenario": s.sid})
        cases += gl
        ctx.evaluations += 2
        if opts.get("fd") and gi == 0:
            w = fd_check(amp, fi.data, cfg.vm, names, p.J)
            fi.model.set_params(x)
            ctx.count("oracle_fd_checks")
            if not w < 2e-5:
                ctx.fail("oracle", "s%d_fd" % s.sid, "tf.GradientTape gradient of the amplitude differs from 5-point central differences (rel %.3g)" % w,
                         site="tf.GradientTape(amp)", fingerprint="oracle:fd", failing_input={"config": s.cfg, "params": x, "rel_err": w})
        records.append({"scenario": s.sid, "model": s.model, "group": gi, "batch": b0, "params": x, "names": names,
                        "grad": p.grad, "hess": p.hess.tolist(), "nll": p.nll_g})
    # ---- totals
    # Gaussian constraints per VARIABLE CELL: a constraint keyed by a tied (var_equal) name acts on the trainable
    # name of its group (all names of a group share one variable); several constraints on one cell add up
    cell = {}
    for grp in (s.cfg["constrains"].get("var_equal") or []):
        heads = [n for n in grp if n in names]
        for n in grp:
            if heads:
                cell[n] = heads[0]
    cs = {}
    for k_, (mu, sg) in s.gc.items():
        tn = k_ if k_ in names else cell.get(k_)
        if tn is not None:
            cs.setdefault(tn, []).append((float(cfg.vm.get(k_)), float(mu), float(sg), k_))
    for tn, lst in cs.items():
        ctx.count("gauss_on_cell:%d" % len(lst))
        for c in lst:
            ctx.count("gauss_key:" + ("trainable name" if c[3] == tn else "tied non-head name"))
    cms = lambda k: "[" + "; ".join("(%s, %s)" % (Rq(c[1]), Rq(c[2])) for c in cs[names[k]]) + "]"
    cgexpr = lambda k: "gauss_cell_grad %s %s" % (Rq(cs[names[k]][0][0]), cms(k))
    chexpr = lambda k: "gauss_cell_hess %s %s" % (Rq(cs[names[k]][0][0]), cms(k))
    tot_call = float(fcn(x))
    nll_g, g_tot = fcn.nll_grad(x); g_tot = arr(g_tot)
    nll_h, g_h, h_tot = fcn.nll_grad_hessian(x); h_tot = np.array(h_tot, dtype=np.float64); g_h = arr(g_h)
    pvec = [round(rnd.uniform(-1, 1), 3) for _ in range(K)]
    # FCN.grad_hessp of EVERY model (F13, the cfit family returning the default-likelihood H.p, is repaired by
    # fix_C07/patch_1: the former fixed reproducer stream is now the regular P / PG cases of the cfit-like models)
    do_hessp = True
    if do_hessp:
        g_p, hp = fcn.grad_hessp(xl, np.array(pvec)); g_p = arr(g_p); hp = arr(hp)
        fcn.vm.set_all(x)
    ctx.evaluations += 4
    hsym = float(np.max(np.abs(h_tot - h_tot.T)))
    tag = "b%d_s%d" % (b0, s.sid)
    site = "CombineFCN" if len(fcns) > 1 else "FCN"
    meta = lambda layer, st, **kw: dict({"layer": layer, "site": st, "model": s.model, "batch": b0, "scenario": s.sid}, **kw)
    cases.append(arith(tag + "_TV", Rq(float(nll_g)), tot_call, 1e-9 * (abs(tot_call) + 1), meta("value", site + ".nll_grad value vs __call__")))
    cases.append(arith(tag + "_TVH", Rq(float(nll_h)), tot_call, 1e-9 * (abs(tot_call) + 1), meta("value", site + ".nll_grad_hessian value vs __call__")))
    gsc = max(abs(t) for t in g_tot) + sum(max(abs(t) for t in p.grad) for p in parts)
    hsc = float(np.max(np.abs(h_tot))) + sum(float(np.max(np.abs(p.hess))) for p in parts)
    cases.append(arith(tag + "_TSYM", Rq(hsym), 0.0, ATOL + RTOL * hsc, meta("hessian", site + ".nll_grad_hessian (symmetry)")))
    for k in range(K):
        cg = cgexpr(k) if names[k] in cs else "0"
        cases.append(arith(tag + "_TG%d" % k, "grad_total (rsum %s) (%s)" % (Rlist([p.grad[k] for p in parts]), cg), g_tot[k], ATOL + RTOL * gsc,
                           meta("gradient", site + ".nll_grad (sum of parts + constraint)", param=names[k])))
        cases.append(arith(tag + "_TGH%d" % k, Rq(g_h[k]), g_tot[k], ATOL + RTOL * gsc, meta("gradient", site + ".nll_grad_hessian gradient", param=names[k])))
        if do_hessp:
            cases.append(arith(tag + "_PG%d" % k, Rq(g_p[k]), g_tot[k], ATOL + RTOL * gsc, meta("gradient", site + ".grad_hessp gradient", param=names[k])))
        for l in range(k, K):
            ch = chexpr(k) if names[k] in cs else "0"
            cases.append(arith(tag + "_TH%d_%d" % (k, l), "hess_total (rsum %s) (%s) %s" % (Rlist([float(p.hess[k][l]) for p in parts]), ch, "true" if k == l else "false"),
                               float(h_tot[k][l]), ATOL + RTOL * hsc, meta("hessian", site + ".nll_grad_hessian (sum of parts + constraint)", param=(names[k], names[l]))))
        # H.p : row k of the implementation's own total Hessian (already tied above) times p
        psc = float(np.sum(np.abs(h_tot[k] * np.array(pvec))))
        if do_hessp:
                cases.append(arith(tag + "_P%d" % k, "row_dot %s %s" % (Rlist(h_tot[k]), Rlist(pvec)), hp[k], ATOL + 10 * RTOL * (psc + hsc * 1e-3),
                               meta("hessp", site + ".grad_hessp", param=names[k], p=pvec, hessp=hp[k], H_row=h_tot[k].tolist(),
                                    constraint=cs.get(names[k]))))
    records.append({"scenario": s.sid, "model": s.model, "group": "total", "batch": b0, "params": x, "names": names, "grad": g_tot,
                    "hess": h_tot.tolist(), "p": pvec, "hessp": hp if do_hessp else None, "nll": tot_call, "config": s.cfg})
    # ---- other batch sizes: gradient (and value) do not depend on the batch size
    others = [b for b in batches if b != b0]
    if not opts.get("all_batches"):
        others = [rnd.choice(others)]
    for b in others:
        f2 = cfg.get_fcn(all_data=all_data, batch=b); keep.append(f2)
        n2, g2 = f2.nll_grad(x); g2 = arr(g2)
        ctx.evaluations += 1
        cases.append(arith("b%d_s%d_BV" % (b, s.sid), Rq(float(n2)), float(nll_g), 1e-9 * (abs(float(nll_g)) + 1), meta("value", "nll_grad value (batch independence)", other_batch=b)))
        for k in range(K):
            cases.append(arith("b%d_s%d_BG%d" % (b, s.sid, k), Rq(g2[k]), g_tot[k], ATOL + RTOL * gsc, meta("gradient", "nll_grad gradient (batch independence)", other_batch=b, param=names[k])))
        if opts.get("hess_batches"):
            n3, g3, h3 = f2.nll_grad_hessian(x, batch=b); h3 = np.array(h3, dtype=np.float64)
            dmax = float(np.max(np.abs(h3 - h_tot)))
            cases.append(arith("b%d_s%d_BH" % (b, s.sid), Rq(dmax), 0.0, ATOL + RTOL * hsc, meta("hessian", "nll_grad_hessian (batch independence)", other_batch=b)))
        ctx.count("batch:" + (("1" if b == 1 else "3" if b == 3 else "N-1" if b == N - 1 else "N" if b == N else "N+5") if R == 1 else "whole-event multiple of R"))
    ctx.count("model:" + s.model); ctx.count("groups:%d" % s.ngroup); ctx.count("nparams:%d" % K); ctx.count("gauss:%d" % len(s.gc))
    ctx.count("batch:" + (("3" if b0 == 3 else "N-1" if b0 == N - 1 else "N" if b0 == N else "N+5") if R == 1 else "whole-event multiple of R"))
    ctx.count("resolution_size:%d" % R)
    ctx.distinct.add((s.sid, "point"))
    # ---- bounded parameters: trans_* wrappers
    if opts.get("bounds"):
        cases += bound_cases(ctx, rnd, s, cfg, fcn, names, x)
    return cases, records


BOUND_KINDS = ("sin", "lo", "up")


def bound_cases(ctx, rnd, s, cfg, fcn, names, x):
    out = []
    vm = fcn.vm
    K = len(names)
    kinds = {}
    cand = [n for n in names if n.endswith("_mass") or n.endswith("_width") or n.endswith("_total_0r")]
    rnd.shuffle(cand)
    deltas = {}
    for n, kind in zip(cand, BOUND_KINDS):
        y0 = float(vm.get(n))
        d1, d2 = abs(y0) * rnd.uniform(0.05, 0.25), abs(y0) * rnd.uniform(0.05, 0.25)
        if kind == "sin":
            a, b = y0 - d1, y0 + d2; vm.set_bound({n: (a, b)}, overwrite=True)
        elif kind == "lo":
            a, b = y0 - d1, None; vm.set_bound({n: (a, None)}, overwrite=True)
        else:
            a, b = None, y0 + d1; vm.set_bound({n: (None, b)}, overwrite=True)
        kinds[n] = (kind, a, b); deltas[n] = d1
        ctx.count("bound:" + kind)
    try:
        xs = []
        for n in names:
            if n in kinds:
                kind = kinds[n][0]
                if kind == "sin":
                    xs.append(rnd.uniform(-1.2, 1.2))
                else:  # y = bound +- (sqrt(x^2+1) - 1): stay within ~40% of the distance to the start value
                    dd = deltas[n] * rnd.uniform(0.6, 1.4)
                    xs.append(math.sqrt((1 + dd) ** 2 - 1) * rnd.choice([-1, 1]))
            else:
                xs.append(float(vm.get(n)))
        xs = np.array(xs)
        ys, dy, d2y = xs.copy(), np.ones(K), np.zeros(K)
        tag = "s%d_X" % s.sid
        meta = lambda layer, st, **kw: dict({"layer": layer, "site": st, "model": s.model, "scenario": s.sid}, **kw)
        dexpr, d2expr = {}, {}
        for k, n in enumerate(names):
            if n not in kinds:
                dexpr[k], d2expr[k] = "1", "0"
                continue
            kind, a, b = kinds[n]
            bd = vm.bnd_dic[n]
            ys[k], dy[k], d2y[k] = bd.get_x2y(xs[k]), bd.get_dydx(xs[k]), bd.get_d2ydx2(xs[k])
            X = Rq(xs[k])
            if kind == "sin":
                ye, de, d2e = "y_sin %s %s %s" % (Rq(a), Rq(b), X), "dy_sin %s %s %s" % (Rq(a), Rq(b), X), "d2y_sin %s %s %s" % (Rq(a), Rq(b), X)
            elif kind == "lo":
                ye, de, d2e = "y_lo %s %s" % (Rq(a), X), "dy_lo %s" % X, "d2y_lo %s" % X
            else:
                ye, de, d2e = "y_up %s %s" % (Rq(b), X), "dy_up %s" % X, "d2y_up %s" % X
            dexpr[k], d2expr[k] = "(" + de + ")", "(" + d2e + ")"
            tac = "cbv [y_sin dy_sin d2y_sin y_lo dy_lo d2y_lo y_up dy_up d2y_up]; " + IP
            for nm, e, v in (("y", ye, ys[k]), ("dy", de, dy[k]), ("d2y", d2e, d2y[k])):
                out.append((tag + "_%s%d" % (nm, k), le(e, float(v), 1e-12 + 1e-11 * abs(float(v))), tac,
                            meta("bound", "Bound.get_x2y/get_dydx/get_d2ydx2", param=n, kind=kind, x=float(xs[k]))))
        # the implementation's own values in y space
        nll_y, g_y = fcn.nll_grad(ys); g_y = arr(g_y)
        nll_yh, g_yh, h_y = fcn.nll_grad_hessian(ys); h_y = np.array(h_y, dtype=np.float64)
        pvec = np.array([round(rnd.uniform(-1, 1), 3) for _ in range(K)])
        do_hessp = True
        if do_hessp:
            g_yp, hp_y = fcn.grad_hessp(ys, pvec * dy); hp_y = arr(hp_y)
        # wrappers
        nll_x, g_x = vm.trans_fcn_grad(fcn.nll_grad)(xs); g_x = arr(g_x)
        nll_xh, g_xh, h_x = vm.trans_f_grad_hess(fcn.nll_grad_hessian)(xs); h_x = np.array(h_x, dtype=np.float64); g_xh = arr(g_xh)
        if do_hessp:
            g_xp, hp_x = vm.trans_grad_hessp(fcn.grad_hessp)(xs, pvec); g_xp = arr(g_xp); hp_x = arr(hp_x)
        ctx.evaluations += 6
        binfo = {"bounds": {n: kinds[n] for n in kinds}, "names": names, "x_fit_space": xs.tolist(), "y": ys.tolist(), "dydx": dy.tolist(),
                 "d2ydx2": d2y.tolist(), "p": pvec.tolist(), "grad_y": g_y, "hess_y": h_y.tolist(), "grad_x_reported": g_x,
                 "hess_x_reported": h_x.tolist(), "hessp_x_reported": hp_x if do_hessp else None,
                 "hess_x_expected(y' H y' + diag(g y''))": (dy[:, None] * h_y * dy[None, :] + np.diag(np.array(g_y) * d2y)).tolist(), "config": s.cfg}
        UNF = "trans_grad trans_hess trans_hessp y_sin dy_sin d2y_sin y_lo dy_lo d2y_lo y_up dy_up d2y_up"
        tac = "cbv [%s]; %s" % (UNF, IP)
        gsc = max(abs(t) for t in g_y) * max(1.0, float(np.max(np.abs(dy))))
        hsc = float(np.max(np.abs(h_y))) * max(1.0, float(np.max(np.abs(dy))) ** 2) + gsc * float(np.max(np.abs(d2y)))
        out.append((tag + "_V", le(Rq(float(nll_x)), float(nll_y), 1e-9 * (abs(float(nll_y)) + 1)), IP, meta("value", "trans_fcn_grad value")))
        for k in range(K):
            for nm, gv in ((("G", g_x), ("GH", g_xh), ("GP", g_xp)) if do_hessp else (("G", g_x), ("GH", g_xh))):
                out.append((tag + "_%s%d" % (nm, k), le("trans_grad %s %s" % (Rq(g_y[k]), dexpr[k]), gv[k], ATOL + RTOL * gsc), tac,
                            meta("gradient", "VarsManager.trans_fcn_grad/trans_f_grad_hess/trans_grad_hessp gradient", param=names[k], wrapper=nm)))
            for l in range(k, K):
                out.append((tag + "_H%d_%d" % (k, l), le("trans_hess %s %s %s %s %s %s" % (Rq(float(h_y[k][l])), dexpr[k], dexpr[l], Rq(g_y[k]), d2expr[k], "true" if k == l else "false"),
                                                        float(h_x[k][l]), ATOL + RTOL * hsc), tac, meta("hessian", "VarsManager.trans_f_grad_hess", param=(names[k], names[l]))))
            if do_hessp:
                out.append((tag + "_P%d" % k, le("trans_hessp %s %s %s %s %s" % (Rq(hp_y[k]), dexpr[k], Rq(g_y[k]), d2expr[k], Rq(float(pvec[k]))), hp_x[k], ATOL + 10 * RTOL * hsc), tac,
                        meta("hessp", "VarsManager.trans_grad_hessp", param=names[k])))
        for c in out:
            if c[3]["site"].startswith("VarsManager"):
                c[3]["bound_case"] = binfo
    finally:
        for n in kinds:
            vm.bnd_dic.pop(n, None)
        vm.set_all(x)
    return out


# ----------------------------------------------------------------------------- plan / workers

def plan(ctx, rnd):
    quick = ctx.tier == "quick"
    sc = []
    sid = 0
    reps = 1 if quick else 2
    for rep in range(reps):
        for m in MODELS:
            for ngroup in ((1,) if (quick or rep > 0) else (1, 2)):
                sc.append((sid, m, ngroup, True, {"fd": m in ("default", "cfit"), "bounds": m == "default" or (not quick and m in ("extended", "cfit_extended")),
                                                 "all_batches": m == "default" or not quick, "tie": False, "hess_batches": m in ("default", "cfit") or not quick}))
                sid += 1
        sc.append((sid, "default", 2, True, {"fd": False, "bounds": True, "all_batches": False, "tie": True, "hess_batches": False})); sid += 1
        sc.append((sid, "cfit", 2, True, {"fd": False, "bounds": False, "all_batches": False, "tie": False, "hess_batches": False})); sid += 1
        if not quick:
            sc.append((sid, "extended", 2, False, {"fd": False, "bounds": False, "all_batches": False, "tie": True, "hess_batches": False})); sid += 1
    # resolution_size > 1 (default/extended Model and Model_cfit): gradient, Hessian, value-alongside, batches of whole events
    for m, R in ((("default", 2), ("cfit", 3)) if quick else (("default", 2), ("default", 3), ("extended", 2), ("cfit", 3), ("cfit", 2))):
        sc.append((sid, m, 1, True, {"fd": False, "bounds": False, "all_batches": True, "tie": False, "hess_batches": True, "R": R})); sid += 1
    # event densities below the clip threshold 1e-6 and a zero event weight: value alongside = stand-alone value,
    # gradient / Hessian = finite differences of the stand-alone value / of the gradient (no per-event tie)
    # (kinds: "low" = one event below the threshold, "zero" = one event of weight 0, "both")
    for m, kind in ((("cfit", "low"), ("cfit", "zero"), ("cfit_extended", "both"), ("default", "both")) if quick else
                    (("cfit", "low"), ("cfit", "zero"), ("cfit", "both"), ("cfit_extended", "low"), ("cfit_extended", "both"), ("cfit_cached", "low"),
                     ("cfit_cached", "zero"), ("default", "both"), ("extended", "both"))):
        sc.append((sid, m, 1, True, {"lowdens": kind})); sid += 1
    # fit_improve.Cached_FG, the wrapper that hands (value, gradient) to the optimisers
    sc.append((sid, "cached_fg", 0, False, {"cached_fg": True})); sid += 1
    only = os.environ.get("VERIF_ONLY")
    if only:
        sc = [x for x in sc if x[1] in only.split(",")]
    return sc


# ----------------------------------------------------------------------------- low densities / zero weight

def lowdens_cases(ctx, rnd, s):
    """one data event with density below the clip threshold (tiny efficiency and background value for the cfit family,
    all couplings scaled down for default / extended) and one data event with weight exactly 0"""
    from tf_pwa.config_loader import ConfigLoader
    out = []
    cfg = ConfigLoader(s.cfg)
    N = s.nd[0] + s.nb[0]
    b0 = rnd.choice([3, N - 1, N, N + 5])
    amp = cfg.get_amplitude()
    x = c06.random_point(rnd, cfg.vm)
    fcn = cfg.get_fcn(batch=b0)
    names = list(cfg.vm.trainable_vars)
    K = len(names)
    fixed = {}
    cfg.vm.set_all(x)
    if s.model not in CFIT_LIKE:
        # all couplings (the fixed reference one too) are scaled by a common factor such that the clip threshold 1e-6 falls
        # into the widest gap of the sorted event densities (geometric middle): some events below, some above, none at
        # the threshold itself (clip_log is only C^2 there: finite differences of the gradient need a smooth neighbourhood)
        fixed = {n: float(cfg.vm.get(n)) for n in cfg.vm.variables if n.endswith("_total_0r") and n not in names}
        ds = np.sort(np.array(amp(fcn.data), dtype=np.float64))
        i = 1 + int(np.argmax(ds[1:] / ds[:-1]))
        sc = math.sqrt(1e-6 / math.sqrt(float(ds[i - 1] * ds[i])))
        ctx.count("lowdens:gap around the threshold %s" % ("> 10%" if ds[i] / ds[i - 1] > 1.1 else "<= 10%"))
        fixed = {n: v * sc for n, v in fixed.items()}
        x = {n: (v * sc if n.endswith("_total_0r") else v) for n, v in x.items()}
        for n, v in fixed.items():
            cfg.vm.set(n, v)
        cfg.vm.set_all(x)
    xl = [float(cfg.vm.get(n)) for n in names]
    # how many event densities are below the threshold (harness-side count, for the distribution only)
    if s.model in CFIT_LIKE:
        fvals = np.array(amp(fcn.data), dtype=np.float64) * np.array(arr(fcn.data.get("eff_value", np.ones(N))))
        gvals = np.array(amp(fcn.mcdata), dtype=np.float64) * np.array(arr(fcn.mcdata.get("eff_value", np.ones(len(arr(fcn.mc_weight))))))
        dens = (1 - s.fb[0]) * fvals / float(np.dot(arr(fcn.mc_weight), gvals)) + s.fb[0] * np.array(arr(fcn.data.get("bg_value", np.ones(N)))) / \
            float(np.dot(arr(fcn.mc_weight), arr(fcn.mcdata.get("bg_value", np.ones(len(gvals))))))
    else:
        dens = np.array(amp(fcn.data), dtype=np.float64)
    nlow = int(np.sum(dens < 1e-6))
    ctx.count("lowdens:events below 1e-6:%s" % ("0" if nlow == 0 else "1" if nlow == 1 else "several"))
    ctx.count("lowdens:zero weights:%d" % int(np.sum(np.array(arr(fcn.weight)) == 0.0)))
    ctx.count("model:" + s.model + " (low density)")
    fv = lambda xx: float(fcn(list(xx)))
    gv = lambda xx: np.array(fcn.nll_grad(list(xx))[1], dtype=np.float64)
    v_call = fv(xl)
    v_g, g = fcn.nll_grad(xl); v_g = float(v_g); g = np.array(g, dtype=np.float64)
    v_h, g_h, h = fcn.nll_grad_hessian(xl); v_h = float(v_h); g_h = np.array(g_h, dtype=np.float64); h = np.array(h, dtype=np.float64)
    pvec = np.array([round(rnd.uniform(-1, 1), 3) for _ in range(K)])
    g_p, hp = fcn.grad_hessp(xl, pvec); g_p = np.array(g_p, dtype=np.float64); hp = np.array(hp, dtype=np.float64)
    cfg.vm.set_all(x)
    f2 = cfg.get_fcn(batch=rnd.choice([b for b in (1, 3, N - 1, N, N + 5) if b != b0]))
    v_b, g_b = f2.nll_grad(xl); v_b = float(v_b); g_b = np.array(g_b, dtype=np.float64)
    ctx.evaluations += 6
    tag = "s%d_L" % s.sid
    meta = lambda layer, st, **kw: dict({"layer": layer, "site": st, "model": s.model, "batch": b0, "scenario": s.sid, "lowdens": True}, **kw)
    info = {"config": s.cfg, "params": dict(zip(names, xl)), "fixed_couplings_set": fixed, "batch": b0, "densities_below_1e-6": nlow,
            "__call__": v_call, "nll_grad_value": v_g, "nll_grad_hessian_value": v_h}
    vals = [v_call, v_g, v_h, v_b] + list(g) + list(h.reshape(-1)) + list(hp)
    if not all(math.isfinite(t) for t in vals):
        ctx.fail("value", tag + "_finite", "non-finite value / derivative with a low-density or zero-weight event: __call__ %r, nll_grad value %r, "
                 "nll_grad_hessian value %r" % (v_call, v_g, v_h), site="FCN.__call__ / nll_grad (low density, zero weight)",
                 fingerprint=s.model + ":lowdens_nonfinite", failing_input=info)
        return out
    vt = 1e-9 * (abs(v_call) + 1)
    out.append(arith(tag + "_TV", Rq(v_g), v_call, vt, meta("value", "FCN.nll_grad value vs __call__ (density below the clip threshold)", case_info=info)))
    out.append(arith(tag + "_TVH", Rq(v_h), v_call, vt, meta("value", "FCN.nll_grad_hessian value vs __call__ (density below the clip threshold)", case_info=info)))
    out.append(arith(tag + "_BV", Rq(v_b), v_g, vt, meta("value", "nll_grad value (batch independence, low density)")))
    # finite differences of the implementation's own stand-alone value / gradient (Richardson, error O(h^4))
    g_fd = richardson_grad(fv, xl, rel=True)
    h_fd = np.array([richardson_grad(lambda xx, k=k: gv(xx)[k], xl, rel=True) for k in range(K)])
    cfg.vm.set_all(x)
    ctx.evaluations += 4 * K * (K + 1)
    gsc = float(np.max(np.abs(g))) + 1.0
    hsc = float(np.max(np.abs(h))) + 1.0
    for k in range(K):
        out.append(arith(tag + "_FG%d" % k, Rq(float(g[k])), float(g_fd[k]), 1e-7 * gsc,
                         meta("gradient", "FCN.nll_grad gradient vs finite differences of __call__ (low density)", param=names[k], case_info=info)))
        out.append(arith(tag + "_GH%d" % k, Rq(float(g_h[k])), float(g[k]), ATOL + RTOL * gsc, meta("gradient", "nll_grad_hessian gradient vs nll_grad gradient (low density)", param=names[k])))
        out.append(arith(tag + "_PG%d" % k, Rq(float(g_p[k])), float(g[k]), ATOL + RTOL * gsc, meta("gradient", "grad_hessp gradient vs nll_grad gradient (low density)", param=names[k])))
        out.append(arith(tag + "_BG%d" % k, Rq(float(g_b[k])), float(g[k]), ATOL + RTOL * gsc, meta("gradient", "nll_grad gradient (batch independence, low density)", param=names[k])))
        out.append(arith(tag + "_P%d" % k, "row_dot %s %s" % (Rlist(h[k]), Rlist(pvec)), float(hp[k]), ATOL + 10 * RTOL * (float(np.sum(np.abs(h[k] * pvec))) + hsc * 1e-3),
                         meta("hessp", "FCN.grad_hessp (low density)", param=names[k])))
        for l in range(K):
            out.append(arith(tag + "_FH%d_%d" % (k, l), Rq(float(h[k][l])), float(h_fd[k][l]), 1e-6 * hsc,
                             meta("hessian", "FCN.nll_grad_hessian vs finite differences of the nll_grad gradient (low density)", param=(names[k], names[l]))))
    ctx.distinct.add((s.sid, "lowdens"))
    return out


# ----------------------------------------------------------------------------- fit_improve.Cached_FG

def cached_fg_cases(ctx, rnd):
    """Cached_FG(f_g) returns (scale f, scale g) of the wrapped function, caches them per point, and replaces NaN
    gradient components by the central difference of f with step 1e-6 (Grad.fd_central)"""
    from tf_pwa.fit_improve import Cached_FG
    out = []
    n_case = 8 if ctx.tier == "quick" else 40
    for ci in range(n_case):
        n = rnd.randrange(2, 5)
        d = [round(rnd.uniform(-2, 2), 2) for _ in range(n)]
        a = [round(rnd.uniform(-3, 3), 2) for _ in range(n)]
        b = [round(rnd.uniform(-3, 3), 2) for _ in range(n)]
        c = round(rnd.uniform(-5, 5), 2)
        M = [[(round(rnd.uniform(-1, 1), 2) if j > i else 0.0) for j in range(n)] for i in range(n)]
        x0 = [round(rnd.uniform(-2, 2), 3) for _ in range(n)]
        nan_idx = sorted(rnd.sample(range(n), rnd.randrange(0, n + 1))) if ci else [n - 1]
        scale = rnd.choice([1.0, 1.0, 0.5, 2.0])
        Ms = np.array(M) + np.array(M).T

        def f_g(x, d=d, a=a, b=b, c=c, Ms=Ms, nan_idx=nan_idx):
            x = np.asarray(x, dtype=np.float64)
            f = float(np.sum(np.array(d) * x ** 3 + np.array(a) * x ** 2 + np.array(b) * x) + c + 0.5 * x @ Ms @ x)
            g = 3 * np.array(d) * x ** 2 + 2 * np.array(a) * x + np.array(b) + Ms @ x
            g[nan_idx] = np.nan
            return f, g
        info = {"d": d, "a": a, "b": b, "c": c, "cross_terms": M, "x": x0, "nan_components": nan_idx, "grad_scale": scale,
                "f": "sum d_i x_i^3 + a_i x_i^2 + b_i x_i + c + sum_{i<j} M_ij x_i x_j"}
        site = "fit_improve.Cached_FG"
        meta = lambda layer, **kw: dict({"layer": layer, "site": site, "model": "cached_fg", "scenario": "fg%d" % ci, "case_info": info}, **kw)
        w = Cached_FG(f_g, grad_scale=scale)
        fv, gv = w(np.array(x0)); gv = np.array(gv, dtype=np.float64)
        w2 = Cached_FG(f_g)
        f2 = w2.fun(np.array(x0))
        try:
            g2 = np.array(w2.grad(np.array(x0)), dtype=np.float64)
        except Exception as e:
            ctx.fail("gradient", "fg%d_grad" % ci, "Cached_FG.grad raised %r" % (e,), site=site + ".grad", fingerprint="cached_fg:raise", failing_input=info)
            g2 = None
        ctx.evaluations += 2
        ctx.count("cached_fg:nan components:%d" % len(nan_idx)); ctx.count("cached_fg:grad_scale:%g" % scale)
        ftrue = f_g(x0)[0]
        fsc = abs(c) + sum(abs(d[i] * x0[i] ** 3) + abs(a[i] * x0[i] ** 2) + abs(b[i] * x0[i]) for i in range(n)) + float(np.sum(np.abs(np.array(M))) * 4) + 1
        out.append(arith("fg%d_V" % ci, Rq(float(fv)), scale * ftrue, 1e-12 * fsc, meta("value")))
        out.append(arith("fg%d_V2" % ci, Rq(float(f2)), ftrue, 1e-12 * fsc, meta("value")))
        for i in range(n):
            bi = b[i] + sum(Ms[i][j] * x0[j] for j in range(n) if j != i)
            if i in nan_idx:  # central difference of the cubic restriction, certified in Coq from the definition
                expr = "(fd_central (fun u => %s * (u * u * u) + %s * (u * u) + %s * u + 0) %s (1 / 1000000))" % (Rq(d[i]), Rq(a[i]), Rq(float(bi)), Rq(x0[i]))
                tol = 3e-9 * fsc  # rounding of f(x+h) - f(x-h) divided by 2e-6
            else:
                expr = "(%s * (%s * %s) + %s * %s + %s)" % (Rq(3 * d[i]), Rq(x0[i]), Rq(x0[i]), Rq(2 * a[i]), Rq(x0[i]), Rq(float(bi)))
                tol = 1e-12 * fsc
            for nm, val, sc_ in ((("G", gv[i], scale), ("G2", g2[i], 1.0)) if g2 is not None else (("G", gv[i], scale),)):
                if not math.isfinite(val):
                    ctx.fail("gradient", "fg%d_%s%d" % (ci, nm, i), "Cached_FG returned a non-finite gradient component", site=site, fingerprint="cached_fg:nonfinite", failing_input=info)
                    continue
                out.append(("fg%d_%s%d" % (ci, nm, i), le("%s * %s" % (Rq(sc_), expr), float(val), tol * sc_),
                            "cbv [fd_central]; interval with (i_prec 120)",
                            meta("gradient", component=i, nan_repaired=(i in nan_idx), returned=float(val), wrapper=("__call__" if nm == "G" else "grad"))))
        ctx.distinct.add(("cached_fg", ci))
    return out


class Acc(c06.Acc):
    def fail(self, layer, case, detail, **kw):
        self.fails.append(dict(layer=layer, case=case, detail=detail, **kw))


def make_scenario(acc, srnd, sid, m, ngroup, gauss, opts):
    s = c06.make_scenario(acc, srnd, sid, m, ngroup, gauss, False, opts.get("R", 1))
    # smaller model than C06: two chains (+ a third one tied to the second when requested)
    if opts.get("tie"):
        s.cfg["constrains"]["var_equal"] = [["A->R_BD.CR_BD->B.D_total_0r", "A->R_CD.BR_CD->C.D_total_0r"]]
    else:
        s.cfg["decay"]["A"] = [["R_BC", "D"], ["R_BD", "C"]]
        s.cfg["decay"].pop("R_CD", None)
        s.cfg["particle"].pop("R_CD", None)
    if m in ("cached_amp", "cfit_cached"):
        s.cfg["particle"]["R_BC"]["float"] = "mg"
    if opts.get("tie") and gauss:
        # a Gaussian constraint keyed by the NON-HEAD name of the var_equal pair (same variable as the head);
        # half of the time the head keeps its own constraint as well (two constraints on one variable)
        head, other = s.cfg["constrains"]["var_equal"][0]
        s.gc[other] = [round(srnd.uniform(0.5, 1.5), 3), round(srnd.uniform(0.05, 0.5), 3)]
        if srnd.random() < 0.5:
            s.gc.pop(head, None)
        s.cfg["constrains"]["gauss_constr"] = {k: list(v) for k, v in s.gc.items()}
    if opts.get("lowdens"):
        nd = s.nd[0]
        i_low, i_zero = srnd.sample(range(nd), 2)
        d = s.cfg["data"]
        kind = opts["lowdens"]
        if m in CFIT_LIKE and kind in ("low", "both"):  # tiny efficiency and background value of one data event -> P_i of order 1e-9
            for key in ("data_eff_value", "data_bg_value"):
                v = np.loadtxt(d[key][0]).reshape(-1)
                v[i_low] = 1e-9 * srnd.uniform(0.5, 2.0)
                np.savetxt(d[key][0], v)
        w = np.loadtxt(d["data_weight"][0]).reshape(-1) if "data_weight" in d else np.ones(nd)
        if kind in ("zero", "both"):
            w[i_zero] = 0.0
        f = os.path.join(s.dir, "dw_lowdens.dat"); np.savetxt(f, w); d["data_weight"] = [f]
    return s


def _worker(args):
    d, tier, item, sseed = args
    import contextlib
    import io
    import time
    import bootstrap
    bootstrap.tf_quiet()
    import tensorflow as tf
    try:
        tf.config.threading.set_intra_op_parallelism_threads(1)
        tf.config.threading.set_inter_op_parallelism_threads(1)
    except RuntimeError:
        pass
    sid, m, ngroup, gauss, opts = item
    acc = Acc(d, tier)
    acc.sizes = (7, 12, 2, 5, 8, 13) if tier == "quick" else (8, 17, 3, 6, 10, 19)
    srnd = random.Random(sseed)
    t0 = time.time()
    res = {"item": item, "cases": [], "records": [], "error": None}
    try:
        with contextlib.redirect_stdout(io.StringIO()):
            if opts.get("cached_fg"):
                res["cases"] = cached_fg_cases(acc, srnd)
            elif opts.get("lowdens"):
                s = make_scenario(acc, srnd, sid, m, ngroup, gauss, opts)
                res["cases"] = lowdens_cases(acc, srnd, s)
            else:
                s = make_scenario(acc, srnd, sid, m, ngroup, gauss, opts)
                res["cases"], res["records"] = run_scenario(acc, srnd, s, opts)
    except Exception:
        import traceback
        res["error"] = traceback.format_exc()[-1800:]
    res.update({"dist": acc.dist, "distinct": acc.distinct, "evaluations": acc.evaluations, "fails": acc.fails, "dt": time.time() - t0})
    return res


# ----------------------------------------------------------------------------- search on break

def richardson_grad(fun, x, h=2e-4, rel=False):
    """rel: step h * min(1, |x_k|) (parameters much smaller than the step, e.g. scaled-down couplings)"""
    x = np.array(x, dtype=np.float64)
    g = np.zeros(len(x))
    for k in range(len(x)):
        hk = h * min(1.0, abs(float(x[k]))) if (rel and x[k] != 0) else h

        def d(hh):
            e = np.zeros(len(x)); e[k] = hh
            return (fun(x + e) - fun(x - e)) / (2 * hh)
        g[k] = (4 * d(hk / 2) - d(hk)) / 3
    return g


def search(ctx, fails):
    """Richardson-extrapolated central differences of the implementation's OWN NLL / gradient vs the gradient,
    Hessian and H.p it reports (no use of the Coq model), on the scenarios of the failing cases."""
    from tf_pwa.config_loader import ConfigLoader
    import contextlib
    import io
    recs = [r for r in getattr(ctx, "_records", []) if r.get("group") == "total"]
    bad_sc = [f.get("input", {}).get("scenario") for f in fails if isinstance(f.get("input"), dict)]
    recs.sort(key=lambda r: 0 if r["scenario"] in bad_sc else 1)
    for r in recs[:6]:
        try:
            with contextlib.redirect_stdout(io.StringIO()):
                cfg = ConfigLoader(r["config"])
                fcn = cfg.get_fcn(batch=r["batch"])
                names = list(cfg.vm.trainable_vars)
                if names != r["names"]:
                    continue
                x0 = [r["params"].get(n, float(cfg.vm.get(n))) for n in names]
                fv = lambda xx: float(fcn(list(xx)))
                gv = lambda xx: np.array(fcn.nll_grad(list(xx))[1], dtype=np.float64)
                g_fd = richardson_grad(fv, x0)
                g_impl = gv(x0)
                if np.max(np.abs(g_fd - g_impl)) > 1e-5 * (np.max(np.abs(g_impl)) + 1):
                    return {"check": "finite differences of FCN.__call__ vs FCN.nll_grad gradient", "config": r["config"], "params": dict(zip(names, x0)),
                            "batch": r["batch"], "gradient_reported": g_impl.tolist(), "gradient_finite_difference": g_fd.tolist()}
                h_impl = np.array(fcn.nll_grad_hessian(list(x0))[2], dtype=np.float64)
                h_fd = np.array([richardson_grad(lambda xx, k=k: gv(xx)[k], x0) for k in range(len(x0))])
                if np.max(np.abs(h_fd - h_impl)) > 1e-4 * (np.max(np.abs(h_impl)) + 1):
                    return {"check": "finite differences of FCN.nll_grad gradient vs FCN.nll_grad_hessian", "config": r["config"], "params": dict(zip(names, x0)),
                            "batch": r["batch"], "hessian_reported": h_impl.tolist(), "hessian_finite_difference": h_fd.tolist()}
                if r.get("hessp") is None:
                    continue
                p = np.array(r["p"])
                gp, hp = fcn.grad_hessp(list(x0), p)
                hp = np.array(hp, dtype=np.float64)
                hp_fd = h_fd @ p
                if np.max(np.abs(hp_fd - hp)) > 1e-4 * (np.max(np.abs(hp_fd)) + 1):
                    return {"check": "finite differences of FCN.nll_grad gradient, times p, vs FCN.grad_hessp", "config": r["config"],
                            "params": dict(zip(names, x0)), "batch": r["batch"], "p": p.tolist(), "hessp_reported": hp.tolist(),
                            "hessp_finite_difference": hp_fd.tolist()}
        except Exception as e:  # pragma: no cover
            ctx.notes.append("search: %r" % (e,))
    return None


# ----------------------------------------------------------------------------- entry points

def run(ctx):
    import multiprocessing
    from concurrent.futures import ProcessPoolExecutor
    rnd = random.Random(ctx.seed * 1000003 + 7)
    ctx.rule = ("seeded scenarios: likelihood model x 1-2 data sets x weights (unit/positive/mixed, bg kinds) as in C06, 2-6 free parameters "
                "(couplings r/phi, a mass, a width, tied pair, Gaussian-constrained, bounded with the three default transforms); 8-24 data, 10-30 MC events; "
                "one Coq-Interval goal per gradient component and per (sampled) Hessian entry on TF-captured per-event derivatives, arithmetic goals for totals, "
                "H.p (all models), value-alongside, batch sizes {1,3,N-1,N,N+5}, trans_* wrappers; tied pairs carry a Gaussian constraint on the non-head "
                "name (alone or together with one on the head); low-density scenarios (one cfit event of density ~1e-9, or all couplings scaled so that "
                "the clip threshold lies in the widest gap of the sorted densities; one event of weight 0) checked by value identities and Richardson "
                "finite differences; Cached_FG on seeded cubic polynomials with 0..n NaN gradient components; distinct = scenario points")
    common.theorem_stage(ctx)
    items = [(ctx.dir, ctx.tier, it, rnd.randrange(1 << 60)) for it in plan(ctx, rnd)]
    items.sort(key=lambda a: -a[2][2])
    nw = max(1, min(int(os.environ.get("VERIF_PY_JOBS", "8")), len(items)))
    # a fresh pool per slice of the plan: workers that ran many scenarios grew to 5-11 GB each (TF graph and trace caches) and
    # were killed by the kernel in the thorough tier; max_tasks_per_child deadlocks in Python 3.12.1, so the pool is recycled by hand
    results = []
    for i0 in range(0, len(items), nw * 3):
        with ProcessPoolExecutor(max_workers=nw, mp_context=multiprocessing.get_context("spawn")) as ex:
            results += list(ex.map(_worker, items[i0:i0 + nw * 3]))
    results.sort(key=lambda r: r["item"][0])
    cases, records = [], []
    for r in results:
        sid, m = r["item"][0], r["item"][1]
        for k, v in r["dist"].items():
            ctx.count(k, v)
        ctx.distinct |= r["distinct"]; ctx.evaluations += r["evaluations"]
        for f in r["fails"]:
            ctx.fail(f.pop("layer"), f.pop("case"), f.pop("detail"), **f)
        if r["error"]:
            ctx.fail("implementation", "s%d" % sid, "model %s raised: %s" % (m, r["error"]), site="get_fcn(%s)" % m, fingerprint=m + ":raise", failing_input=None)
            continue
        cases += r["cases"]; records += r["records"]
    slow = sorted(results, key=lambda r: -r["dt"])[:3]
    ctx.log("implementation stage: %d scenarios, %d goals; slowest: %s" % (
        len(results), len(cases), ", ".join("s%d %s x%d %.0fs" % (r["item"][0], r["item"][1], r["item"][2], r["dt"]) for r in slow)))
    ctx._records = records
    heavy = [c for c in cases if c[3]["layer"] in ("gradient", "hessian", "cfit_bg_term") and "let " in c[1]]
    light = [c for c in cases if c not in heavy]
    for c in (heavy[:: max(1, len(heavy) // 3)] + light[:: max(1, len(light) // 3)])[:6]:
        ctx.sample({"case": c[0], "goal": c[1][:300] + " ...", "meta": {k: str(v)[:120] for k, v in c[3].items() if k in ("layer", "site", "model", "batch", "param")}})
    res = common.coq_cases(ctx, "gradh", HEADER, [c[:3] for c in heavy], per_file=max(3, len(heavy) // 48 + 1), case_timeout=120)
    res.update(common.coq_cases(ctx, "grada", HEADER, [c[:3] for c in light], per_file=max(20, len(light) // 16 + 1), case_timeout=60))
    for cid, stmt, tac, meta in cases:
        if res[cid] != "OK":
            fi = None
            if meta["layer"] == "hessp" and "H_row" in meta:
                fi = {"check": "FCN.grad_hessp(x, p)[1][k] vs row k of FCN.nll_grad_hessian(x)[2] times p", "param": meta.get("param"), "p": meta["p"],
                      "hessp_reported": meta["hessp"], "H_row": meta["H_row"], "H_row_dot_p": float(np.dot(meta["H_row"], meta["p"])),
                      "gaussian_constraint(theta,mean,sigma)": meta.get("constraint"), "model": meta.get("model"), "scenario": meta.get("scenario")}
            if fi is None and "case_info" in meta:
                fi = dict(meta["case_info"], check=meta["site"], case=cid, param=meta.get("param"), returned=meta.get("returned"))
            if fi is None and "bound_case" in meta:
                fi = dict(meta["bound_case"], check="VarsManager.trans_* wrapper vs chain rule on the implementation's own y-space gradient/Hessian",
                          case=cid, param=meta.get("param"))
            ctx.fail(meta["layer"], cid, "implementation value not within tolerance of the model (%s) [%s, model=%s, param=%s]"
                     % (res[cid], meta["site"], meta.get("model"), meta.get("param")),
                     inp={k: (v if not isinstance(v, (list, tuple)) or len(v) < 12 else str(v)[:200]) for k, v in meta.items() if k not in ("bound_case", "case_info")},
                     site=meta["site"], fingerprint="%s:%s" % (meta.get("model"), meta["layer"]), failing_input=fi)
    by_site = {}
    for f in ctx.failures:
        key = "%s [%s]" % (f.get("site"), f.get("fingerprint"))
        by_site[key] = by_site.get(key, 0) + 1
    if by_site:
        ctx.log("failures by site [fingerprint]: " + "; ".join("%d x %s" % (v, k) for k, v in sorted(by_site.items(), key=lambda t: -t[1])))
    return common.finish(ctx, search=search, technique=TECHNIQUE, extra_assumptions=[
        "ORACLE: TensorFlow autodiff of the amplitude alone returns its partial derivatives (per-event f, d_k f, d_k d_l f are captured with tf.GradientTape); "
        "cross-checked each run by 5-point central differences of amp (rel 2e-5)",
        "tolerances: gradients/Hessians rtol 1e-7 (of the sum of |terms|) + atol 1e-9; H.p against the implementation's own (tied) Hessian",
        "per-event Coq ties use densities above the clip threshold; below it (and for zero event weights) the value identities and "
        "finite differences of the implementation's own value / gradient are checked (rel 1e-7 / 1e-6), no per-event tie",
        "not covered: inject_mc, constr_frac models, using_mix_likelihood, pre_trans / from_trans (FCN argument = transformed value, derivatives w.r.t. "
        "the raw variable: root of the open C09 finding pre_trans:error_of_raw_variable), a polar/Cartesian switch of a live FCN with traced graphs "
        "(use_tf_function, cached_amp, cached_int), cached_int with floating masses or widths (documented precondition)",
    ])


def replay(rep):
    import json
    print(json.dumps(rep, indent=1, default=str)[:6000])
    return 0
