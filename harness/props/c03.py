"""C03 - amplitudes superpose linearly; fit fractions obey the sum rule.

Theorems: coq/Props/Properties_C03.v (norm expansion, sum rule, coupling linearity, batch additivity:
all unbounded, list induction).  Tie (implementation values, certified by Coq-Interval):
 (S) full amplitude tensor = vsum of the per-chain tensors, every helicity component;
 (U) amplitude with a subset of resonances selected = partial sum;
 (P) rescaling one chain's coupling by z multiplies that chain's tensor by z and nothing else;
 (F) fit_fractions / cal_fitfractions values = model FF_single / FF_pair of the captured tensors and weights,
     for several batch sizes (incl. non-dividing and larger than the sample); (R) the reported fractions sum to 1."""
import itertools
import math
import random

import numpy as np

import ampkit
import common
from qfmt import Rq
from rcases import real_stmt

TECHNIQUE = "Coq proof (list induction over chains/points) + Coq-Interval correspondence of amplitude tensors and fit fractions"

HEADER = ("From Coq Require Import Reals List ZArith.\nFrom Interval Require Import Tactic.\n"
          "From TFV Require Import Base.RBase Base.Tie Shape.LineShapes Amp.Dalitz3 Amp.Superpose.\nImport ListNotations.\nOpen Scope R_scope.\n")
RT = "rcompute; repeat split; rclose"


def clist(a):
    a = np.asarray(a).reshape(-1)
    return "[" + "; ".join("(%s, %s)" % (Rq(z.real), Rq(z.imag)) for z in a) + "]"


def configs(rnd, tier):
    out = []
    # (1) all spin 0
    mf = {k: rnd.uniform(0.1, 0.5) for k in ampkit.FINALS}; M0 = sum(mf.values()) + rnd.uniform(1.0, 2.0)
    res = {p: {"pair": p, "J": J, "P": (1 if J % 2 == 0 else -1), "mass": rnd.uniform(0.8, 1.4), "width": rnd.uniform(0.05, 0.3)}
           for p, J in zip(ampkit.PAIRS, (1, 2, 0))}
    out.append(("spin0", ampkit.three_body_config(M0, mf, res), M0, mf, None))
    # (2) spin-1/2 parent and baryon, weak decay
    mf = {"B": 0.938, "C": 0.494, "D": 0.139}; M0 = 2.286
    res = {"R_BC": {"pair": "R_BC", "J": 1.5, "P": -1, "mass": 1.52, "width": 0.05}, "R_BD": {"pair": "R_BD", "J": 1.5, "P": 1, "mass": 1.232, "width": 0.117},
           "R_CD": {"pair": "R_CD", "J": 1, "P": -1, "mass": 0.892, "width": 0.05}}
    out.append(("half", ampkit.three_body_config(M0, mf, res, top=(0.5, 1), fin={"B": (0.5, 1), "C": (0, -1), "D": (0, -1)},
                                                decay_opts={k: {"p_break": True} for k in res}), M0, mf, None))
    # (3) vector parent, vector final, two resonances on the same pair
    mf = {"B": 0.78, "C": 0.14, "D": 0.14}; M0 = 3.1
    res = {"R_CD": {"pair": "R_CD", "J": 0, "P": 1, "mass": 0.98, "width": 0.07}, "R_CD2": {"pair": "R_CD", "J": 2, "P": 1, "mass": 1.27, "width": 0.18},
           "R_BC": {"pair": "R_BC", "J": 1, "P": 1, "mass": 1.23, "width": 0.14}}
    out.append(("vector", ampkit.three_body_config(M0, mf, res, top=(1, -1), fin={"B": (1, -1), "C": (0, -1), "D": (0, -1)}), M0, mf, None))
    # (4) four-body cascades in which one resonance appears in several chains (Rx in two, Sx in two)
    mf = {"B": 0.14, "C": 0.14, "D": 0.49, "E": 0.49}; M0 = 3.1
    spins = {"A": (1, -1), "B": (0, -1), "C": (0, -1), "D": (0, -1), "E": (0, -1)}
    chains = [{"kind": "31", "R": ("Rx", 1, 1, 1.9, 0.2), "S": ("Sx", 1, -1, 0.78, 0.15, ("B", "C")), "third": "D", "fourth": "E"},
              {"kind": "31", "R": ("Rx", 1, 1, 1.9, 0.2), "S": ("Sy", 0, 1, 0.9, 0.2, ("C", "D")), "third": "B", "fourth": "E"},
              {"kind": "22", "R1": ("Sx", 1, -1, 0.78, 0.15, ("B", "C")), "R2": ("R2", 1, -1, 1.02, 0.05, ("D", "E"))}]
    out.append(("cascade", ampkit.four_body_config(M0, mf, spins, chains), M0, mf, ((("B", "C"), "D"), "E")))
    if tier == "thorough":
        for k in range(6):
            mf = {x: rnd.uniform(0.1, 0.5) for x in ampkit.FINALS}; M0 = sum(mf.values()) + rnd.uniform(1.0, 2.0)
            res = {}
            for n in range(rnd.randrange(2, 5)):
                p = rnd.choice(list(ampkit.PAIRS)); J = rnd.randrange(0, 3)
                res["X%d" % n] = {"pair": p, "J": J, "P": (1 if J % 2 == 0 else -1), "mass": rnd.uniform(0.8, 1.6), "width": rnd.uniform(0.05, 0.3)}
            Jt = rnd.choice([0, 1]); Jb = rnd.choice([0, 1])
            out.append(("rand%d" % k, ampkit.three_body_config(M0, mf, res, top=(Jt, -1), fin={"B": (Jb, -1), "C": (0, -1), "D": (0, -1)},
                                                               decay_opts={x: {"p_break": True} for x in res}), M0, mf, None))
    return out


def run_config(ctx, rnd, tag, cfg, M0, mf, cases, nev, tree=None):
    from tf_pwa.config_loader import ConfigLoader
    from tf_pwa.applications import fit_fractions
    from tf_pwa.fitfractions import cal_fitfractions_no_grad
    config = ConfigLoader(cfg)
    amp = config.get_amplitude()
    pars = ampkit.random_params(amp, rnd)
    p4 = ampkit.gen_events(M0, mf, nev, rnd.randrange(10 ** 6)) if tree is None else ampkit.gen_tree_events(tree, mf, M0, nev, rnd.randrange(10 ** 6))
    data = config.data.cal_angle(p4)
    per, full = ampkit.chain_amps(amp, data)
    nch = len(per)
    ncomp = int(np.prod(full.shape[1:]))
    npts = nev * ncomp
    meta0 = {"config": cfg, "params": {k: float(v) for k, v in pars.items()}, "events": {k: v.tolist() for k, v in p4.items()}}
    ctx.count("chains=%d" % nch); ctx.count("components=%d" % ncomp)
    tol = 1e-12 * max(1e-30, float(np.abs(full).max()))
    # (S) superposition, one case per event
    for e in range(nev):
        stmt = "close_all %s (vsum %d [%s]) %s" % (Rq(tol), ncomp, "; ".join(clist(pc[e]) for pc in per), clist(full[e]))
        cases.append(("S_%s_e%d" % (tag, e), stmt, RT, dict(meta0, layer="superposition", event=e)))
        ctx.distinct.add((tag, "S", e))
    # (U) subsets of resonances
    names = [str(r) for r in amp.res]
    chain_res = [[str(r) for r in ch.inner] for ch in amp.decay_group.chains]
    subsets = [s for k in range(1, len(names)) for s in itertools.combinations(names, k)]
    for s in rnd.sample(subsets, min(len(subsets), 3)):
        with amp.temp_used_res(list(s)):
            sub = np.array(amp.decay_group.get_amp(data))
        flags = ["true" if any(r in s for r in cr) else "false" for cr in chain_res]
        e = rnd.randrange(nev)
        stmt = "close_all %s (vsum %d (select [%s] [%s])) %s" % (Rq(tol), ncomp, "; ".join(flags), "; ".join(clist(pc[e]) for pc in per), clist(sub[e]))
        cases.append(("U_%s_%s" % (tag, "_".join(s)), stmt, RT, dict(meta0, layer="subset", subset=list(s), event=e)))
        ctx.distinct.add((tag, "U", s))
    # (P) proportionality to the chain's own coupling
    k = rnd.randrange(nch)
    tname = [x for x in pars if "total_0r" in x and all(r in x for r in chain_res[k])]
    tname = sorted(tname, key=len)[0][:-1]
    rho, phi = rnd.uniform(0.3, 2.0), rnd.uniform(-2, 2)
    new = dict(pars); new[tname + "r"] = pars[tname + "r"] * rho; new[tname + "i"] = pars[tname + "i"] + phi
    with amp.temp_params(new):
        per2, _ = ampkit.chain_amps(amp, data)
    e = rnd.randrange(nev)
    z = "(%s * cos %s, %s * sin %s)" % (Rq(rho), Rq(phi), Rq(rho), Rq(phi))
    tol2 = 1e-11 * max(1e-30, float(np.abs(per2[k]).max()))
    stmt = "close_all %s (vscale %s %s) %s" % (Rq(tol2), z, clist(per[k][e]), clist(per2[k][e]))
    cases.append(("P_%s_scaled" % tag, stmt, RT, dict(meta0, layer="coupling_scaling", chain=k, z=[rho, phi])))
    for j in range(nch):
        if j != k:
            stmt = "close_all %s %s %s" % (Rq(tol), clist(per[j][e]), clist(per2[j][e]))
            cases.append(("P_%s_other%d" % (tag, j), stmt, RT, dict(meta0, layer="coupling_scaling_others", chain=j)))
    # (F) fit fractions at several batch sizes
    w = np.array([rnd.choice([1.0, 0.5, 2.0, -0.25, 1.5]) for _ in range(nev)])
    if w.sum() <= 0.5:
        w = np.abs(w)
    data["weight"] = w
    wpts = np.repeat(w, ncomp)
    one_res_per_chain = all(len(cr) == 1 for cr in chain_res) and len(set(sum(chain_res, []))) == nch
    # resonance-indexed amplitude = sum of the chains containing it
    res_amp = {r: sum(pc for pc, cr in zip(per, chain_res) if r in cr) for r in names}
    allv = sum(per)
    wl = "[" + "; ".join(Rq(x) for x in wpts) + "]"
    batches = [1, nev - 1, nev, nev + 3] if nev > 2 else [1, nev]
    ffs = {}
    for b in batches:
        ff, _ = fit_fractions(amp, data, batch=b)
        ffs[b] = {kk: float(v) for kk, v in ff.items()}
        ctx.count("ff_batch=%s" % ("1" if b == 1 else "N-1" if b == nev - 1 else "N" if b == nev else "N+3"))
    ffn = cal_fitfractions_no_grad(amp, data, batch=max(1, nev - 1))
    ctx.evaluations += len(batches) + 1
    # accumulator path (method="new", what ConfigLoader.cal_fitfractions uses with lazy_call) with >= 2 batches
    extra = {}
    for b in ([1, max(1, nev - 1)] if nev > 1 else [1]):
        r = fit_fractions(amp, data, batch=b, method="new", res=list(amp.res))
        extra[("new", b)] = {kk: float(v) for kk, v in r.get_frac_grad(sum_diag=False)[0].items()}
        ctx.count("ff_method_new_batches=%d" % math.ceil(nev / b))
    # the same fractions through a graph-compiled model without the id cache (amp(data) path with sub-selections)
    import copy
    c2 = copy.deepcopy(cfg); c2["data"].update({"use_tf_function": True, "no_id_cached": True})
    config2 = ConfigLoader(c2); amp2 = config2.get_amplitude(); amp2.set_params(pars)
    data2 = config2.data.cal_angle(p4); data2["weight"] = w
    extra[("tf_function+no_id_cached", nev)] = {kk: float(v) for kk, v in fit_fractions(amp2, data2, batch=nev)[0].items()}
    # an ALREADY SPLIT sample (list of batches, batch=None: the calling convention of the tutorials): the weights travel with the pieces
    if nev >= 2:
        from tf_pwa.data import data_split
        from tf_pwa.fitfractions import cal_fitfractions
        pieces = list(data_split(data, max(1, nev - 1)))
        extra[("presplit", max(1, nev - 1))] = {kk: float(v) for kk, v in cal_fitfractions(amp, pieces, batch=None)[0].items()}
        extra[("presplit_ff", max(1, nev - 1))] = {kk: float(v) for kk, v in fit_fractions(amp, pieces, batch=None)[0].items()}
        ctx.count("ff_presplit_sample")
    # history: a sub-selection is ACTIVE when the fractions of the full model are requested (res=None): they refer to all chains
    # (and the selection is restored afterwards: C17)
    if nch >= 2:
        sel = [names[0]]
        with amp.temp_used_res(sel):
            extra[("selection_active", nev)] = {kk: float(v) for kk, v in fit_fractions(amp, data, batch=nev)[0].items()}
            extra[("selection_active_new", max(1, nev - 1))] = {kk: float(v) for kk, v in
                                                                 fit_fractions(amp, data, batch=max(1, nev - 1), method="new", res=list(amp.res)).get_frac_grad(sum_diag=False)[0].items()}
        ctx.count("ff_with_selection_active")
    for (how, b), vals in extra.items():
        ffs[(how, b)] = vals
    for b in list(ffs):
        for key, v in ffs[b].items():
            if isinstance(key, tuple):
                a, c = key
                # the pair selection activates the UNION of the chains containing either resonance (a chain shared by both counts once)
                pair = sum(pc for pc, cr in zip(per, chain_res) if (a in cr or c in cr))
                model = "wnorm %s %s / wnorm %s %s - wnorm %s %s / wnorm %s %s - wnorm %s %s / wnorm %s %s" % (
                    wl, clist(pair), wl, clist(allv), wl, clist(res_amp[a]), wl, clist(allv), wl, clist(res_amp[c]), wl, clist(allv))
                kid = "%s_x_%s" % key
            else:
                model = "wnorm %s %s / wnorm %s %s" % (wl, clist(res_amp[key]), wl, clist(allv))
                kid = str(key)
            bid = ("b%d" % b) if isinstance(b, int) else ("%s_b%d" % (b[0].replace("+", "_"), b[1]))
            cases.append(("F_%s_%s_%s" % (tag, bid, kid), real_stmt(model, v, rtol=0, atol=1e-10), "rcompute; rclose",
                          dict(meta0, layer="fit_fraction", batch=str(b), key=str(key), impl=v, weights=w.tolist())))
            ctx.distinct.add((tag, "F", b, kid))
        if one_res_per_chain:
            tot = sum(ffs[b].values())
            cases.append(("R_%s_%s" % (tag, str(b).replace(" ", "").replace("'", "").replace("(", "").replace(")", "").replace(",", "_").replace("+", "_")), "(Rabs (%s - 1) <= %s)" % (" + ".join(Rq(v) for v in ffs[b].values()), Rq(1e-9)),
                          "interval with (i_prec 90)", dict(meta0, layer="sum_rule", batch=str(b), total=tot, fractions={str(k): v for k, v in ffs[b].items()})))
    # no-grad variant agrees with the graded one (same definition)
    for key, v in ffn.items():
        ks = key if isinstance(key, str) else str(key)
    ctx.evaluations += nev * (nch + 1)
    return meta0


def known_reproducers(ctx):
    """fixed reproducers of the two OPEN findings of C03 (excluded from the regular stream: every regular config gives every
    particle a mass, and the sum-rule case is only emitted for groups with one resonance per chain)"""
    from tf_pwa.config_loader import ConfigLoader
    from tf_pwa.applications import fit_fractions
    # (1) a final particle WITHOUT a mass: its mass becomes the mean of the first batch ever evaluated, so the fit fractions
    #     depend on the batch split
    mf = {"B": 0.5, "C": 0.3, "D": 0.13957}; M0 = 2.0
    res = {"R_BC": {"pair": "R_BC", "J": 1, "P": -1, "mass": 1.1, "width": 0.15}, "R_CD": {"pair": "R_CD", "J": 0, "P": 1, "mass": 0.9, "width": 0.2}}
    cfg = ampkit.three_body_config(M0, mf, res)
    del cfg["particle"]["$finals"]["D"]["mass"]
    half = ampkit.gen_events(M0, mf, 20, 11)
    mf2 = dict(mf, D=0.30)
    other = ampkit.gen_events(M0, mf2, 20, 12)
    p4 = {k: np.concatenate([half[k], other[k]]) for k in half}
    vals = []
    for b in (40, 20):
        import warnings
        with warnings.catch_warnings():
            warnings.simplefilter("ignore")
            c = ConfigLoader(json_copy(cfg)); amp = c.get_amplitude(); ampkit.random_params(amp, random.Random(3))
            vals.append({str(k): float(v) for k, v in fit_fractions(amp, c.data.cal_angle(p4), batch=b)[0].items()})
    dev = max(abs(vals[0][k] - vals[1][k]) for k in vals[0])
    ctx.count("known_reproducer:no_mass_batch_mean:%s" % ("fails" if dev > 1e-9 else "passes"))
    if dev > 1e-9:
        ctx.fail("fit_fraction", "known_no_mass", "fit fractions depend on the batch split: max difference %.3g between batch 40 and 20" % dev,
                 site="HelicityDecay._get_particle_mass for a particle without mass (tf_pwa/amp/core.py)", fingerprint="no_mass:first_batch_mean",
                 failing_input={"config": cfg, "events": {k: v.tolist() for k, v in p4.items()}, "fractions_batch_40": vals[0], "fractions_batch_20": vals[1]})
    # (2) two listed resonances in ONE chain (cascade): single + pairwise fractions do not add up to one
    from props.c01 import four_body
    cfg4, M04, mf4, tree = four_body(random.Random(1))
    c = ConfigLoader(cfg4); amp = c.get_amplitude(); ampkit.random_params(amp, random.Random(5))
    d4 = c.data.cal_angle(ampkit.gen_tree_events(tree, mf4, M04, 30, 17))
    ff = {str(k): float(v) for k, v in fit_fractions(amp, d4, batch=30)[0].items()}
    tot = sum(ff.values())
    ctx.count("known_reproducer:sum_rule_multi_resonance_chain:%s" % ("fails" if abs(tot - 1) > 1e-9 else "passes"))
    if abs(tot - 1) > 1e-9:
        ctx.fail("sum_rule", "known_multi_res_chain", "single + pairwise fit fractions add up to %.6f for a group whose chains contain two resonances each" % tot,
                 site="cal_fitfractions with the default res = amp.res on chains with several resonances", fingerprint="sum_rule:multi_resonance_chain",
                 failing_input={"config": cfg4, "fractions": ff, "sum": tot})


def json_copy(x):
    import json
    return json.loads(json.dumps(x))


def search(ctx, fails):
    """direct tests of the property on the implementation (no model): partial sums, sum rule, batch drift"""
    from tf_pwa.config_loader import ConfigLoader
    from tf_pwa.applications import fit_fractions
    for f in fails:
        m = f.get("input") or {}
        if "config" not in m:
            continue
        try:
            config = ConfigLoader(m["config"]); amp = config.get_amplitude(); amp.set_params(m["params"])
            p4 = {k: np.array(v) for k, v in m["events"].items()}
            data = config.data.cal_angle(p4)
            per, full = ampkit.chain_amps(amp, data)
            d = float(np.abs(sum(per) - full).max())
            if d > 1e-10 * float(np.abs(full).max()):
                return {"config": m["config"], "params": m["params"], "events": m["events"], "violation": "full amplitude != sum of chain amplitudes", "max_abs_diff": d}
            nev = len(next(iter(p4.values())))
            chain_res0 = [[str(r) for r in ch.inner] for ch in amp.decay_group.chains]
            for r in [str(x) for x in amp.res]:
                with amp.temp_used_res([r]):
                    sub = np.array(amp.decay_group.get_amp(data))
                want = sum(pc for pc, cr in zip(per, chain_res0) if r in cr)
                dd = float(np.abs(sub - want).max())
                if dd > 1e-10 * float(np.abs(full).max()):
                    return {"config": m["config"], "params": m["params"], "events": m["events"], "violation": "selecting resonance %s does not give the partial sum of its chains" % r,
                            "chains": chain_res0, "max_abs_diff": dd}
            data["weight"] = np.array(m.get("weights", [1.0] * nev))
            ref, _ = fit_fractions(amp, data, batch=nev)
            for b in (1, max(1, nev - 1)):
                new = fit_fractions(amp, data, batch=b, method="new", res=list(amp.res)).get_frac_grad(sum_diag=False)[0]
                for k in new:
                    if abs(float(new[k]) - float(ref[k])) > 1e-9:
                        return {"config": m["config"], "params": m["params"], "events": m["events"], "weights": m.get("weights"),
                                "violation": "fit_fractions(method='new', batch=%d) differs from the un-batched value" % b, "key": str(k), "new": float(new[k]), "reference": float(ref[k])}
            # history: the same request while a sub-selection is active, and a pre-split sample
            if len(amp.decay_group.chains) >= 2:
                first = [str(x) for x in amp.res][0]
                with amp.temp_used_res([first]):
                    sel_old = {str(k): float(v) for k, v in fit_fractions(amp, data, batch=nev)[0].items()}
                    sel_new = {str(k): float(v) for k, v in fit_fractions(amp, data, batch=nev, method="new", res=list(amp.res)).get_frac_grad(sum_diag=False)[0].items()}
                for how, vals_ in (("default method", sel_old), ("method='new'", sel_new)):
                    for k in vals_:
                        if abs(vals_[k] - float(ref[[kk for kk in ref if str(kk) == k][0]])) > 1e-9:
                            return {"config": m["config"], "params": m["params"], "events": m["events"], "weights": m.get("weights"),
                                    "violation": "fit fractions of the full model requested while the selection [%s] is active (%s) differ from those without a selection" % (first, how),
                                    "key": k, "with_selection_active": vals_[k], "reference": float(ref[[kk for kk in ref if str(kk) == k][0]])}
            if nev >= 2:
                from tf_pwa.data import data_split
                from tf_pwa.fitfractions import cal_fitfractions
                pre = {str(k): float(v) for k, v in cal_fitfractions(amp, list(data_split(data, max(1, nev - 1))), batch=None)[0].items()}
                for k in pre:
                    if abs(pre[k] - float(ref[[kk for kk in ref if str(kk) == k][0]])) > 1e-9:
                        return {"config": m["config"], "params": m["params"], "events": m["events"], "weights": m.get("weights"),
                                "violation": "fit fractions of a pre-split sample (list of batches, batch=None) differ from those of the whole sample", "key": k,
                                "presplit": pre[k], "reference": float(ref[[kk for kk in ref if str(kk) == k][0]])}
            vals = {}
            for b in (1, max(1, nev - 1), nev, nev + 3):
                ff, _ = fit_fractions(amp, data, batch=b)
                vals[b] = {str(k): float(v) for k, v in ff.items()}
            b0 = list(vals)[0]
            for b in vals:
                for k in vals[b]:
                    if abs(vals[b][k] - vals[b0][k]) > 1e-9:
                        return {"config": m["config"], "params": m["params"], "events": m["events"], "weights": m.get("weights"),
                                "violation": "fit fraction depends on batch size", "key": k, "values_by_batch": {bb: vals[bb][k] for bb in vals}}
            tot = sum(vals[b0].values())
            chain_res = [[str(r) for r in ch.inner] for ch in amp.decay_group.chains]
            if all(len(c) == 1 for c in chain_res) and len(set(sum(chain_res, []))) == len(chain_res) and abs(tot - 1) > 1e-8:
                return {"config": m["config"], "params": m["params"], "events": m["events"], "violation": "fit fractions do not sum to one", "sum": tot, "fractions": vals[b0]}
        except Exception as e:
            ctx.notes.append("search: %r" % (e,))
    return None


def run(ctx):
    rnd = random.Random(ctx.seed * 1000003 + 3)
    ctx.rule = ("configs: all-spin-0 (3 chains), spin-1/2 weak decay (3/2,3/2,1 resonances), vector->vector with two resonances on one pair; thorough adds random ones; "
                "per config: superposition per event (all helicity components), 3 random resonance subsets, one coupling rescaling, fit fractions at batch sizes "
                "{1,N-1,N,N+3} with mixed-sign weights; distinct = distinct (config,layer,item)")
    common.theorem_stage(ctx)
    cases = []
    for tag, cfg, M0, mf, tree in configs(rnd, ctx.tier):
        meta = run_config(ctx, rnd, tag, cfg, M0, mf, cases, 3 if ctx.tier == "quick" else 6, tree=tree)
        ctx.sample({"config_tag": tag, "decay": cfg["decay"], "particle": cfg["particle"]}, cap=3)
    known_reproducers(ctx)
    for c in cases[:: max(1, len(cases) // 3)]:
        ctx.sample({"case": c[0], "goal": c[1][:400]})
    res = common.coq_cases(ctx, "c03", HEADER, [c[:3] for c in cases], per_file=6, case_timeout=120)
    for cid, stmt, tac, meta in cases:
        if res[cid] != "OK":
            ctx.fail(meta["layer"], cid, "implementation differs from the superposition model at layer %s (%s)" % (meta["layer"], res[cid]), inp=meta,
                     site="amplitude:" + meta["layer"], fingerprint=meta["layer"])
    return common.finish(ctx, search=search, technique=TECHNIQUE, extra_assumptions=[
        "sum rule is demanded of the implementation only for decay groups where every chain contains exactly one listed resonance and no resonance owns two chains (the theorem is chain-indexed)",
        "tolerances: 1e-12 relative to the largest component for tensors, 1e-10 absolute for fractions"])


def replay(rep):
    return ampkit.replay_failing_input(rep)
