"""C12 - rotation-group functions (Wigner d/D, Clebsch-Gordan, SU(2) Euler angles) are exact.

Theorems: coq/Props/Properties_C12.v.  Tie: exhaustive weight table and CG values (exact rational
comparison of squares + sign inside Coq), certified-interval goals for d / D* entries, the helicity
gather index table, cg_table.json, SU2M algebra and Euler-angle extraction."""
import itertools
import json
import math
import os
import random
from fractions import Fraction

import numpy as np

import common
from qfmt import Qq, Rq, frac
from rcases import cplx_stmt, real_stmt

TECHNIQUE = "Coq proof (285+285 field identities for unitarity, vm_compute on exact radicals for CG) + exact/interval Coq-evaluated correspondence"

HEADER = ("From Coq Require Import Reals List ZArith QArith.\nFrom Interval Require Import Tactic.\n"
          "From TFV Require Import Base.RBase Base.Tie Rot.Wigner Rot.CG.\nImport ListNotations.\n")
RT = "repeat split; rcompute; rclose"


def T(x):
    import tensorflow as tf
    return tf.constant(np.atleast_1d(np.array(x, dtype=np.float64)))


def weight_cases(ctx, jmax):
    from tf_pwa.dfun import small_d_weight
    cases = []
    for j2 in range(jmax + 1):
        w = small_d_weight(j2)
        for mi in range(j2 + 1):
            m2 = -j2 + 2 * mi
            items = []
            for ni in range(j2 + 1):
                n2 = -j2 + 2 * ni
                for l in range(j2 + 1):
                    v = float(w[l][mi][ni])
                    items.append("(%d, %d%%nat, %s)" % (n2, l, Qq(v)))
                    ctx.evaluations += 1
                    if v != 0:
                        ctx.distinct.add(("w", j2, m2, n2, l))
            stmt = ("forallb (fun t : Z * nat * Q => let '(n2, l, w) := t in weight_ok (weight_entry %d (%d) n2 l) w (1 # 1000000000000)) [%s] = true"
                    % (j2, m2, "; ".join(items)))
            cases.append(("w_%d_%d" % (j2, m2), "(%s)%%Z" % stmt, "vm_compute; reflexivity", {"fn": "small_d_weight", "j2": j2, "m2": m2}))
    ctx.count("weight_rows", len(cases))
    return cases


def d_cases(ctx, rnd, n_angles, jmax=8, sample=None):
    from tf_pwa.dfun import small_d_matrix, D_matrix_conj
    cases = []
    # history: the first use of every spin in this process is in SINGLE precision (a quick float32 scan); whatever the library
    # caches per spin (weight tables, index tables) must not carry that precision into the float64 evaluations tied below
    import tensorflow as tf
    for j2 in range(jmax + 1):
        try:
            small_d_matrix(tf.constant([0.3], dtype=tf.float32), j2)
            D_matrix_conj(tf.constant([0.1], dtype=tf.float32), tf.constant([0.3], dtype=tf.float32), tf.constant([0.2], dtype=tf.float32), j2)
            ctx.count("history:float32_first")
        except Exception as e:  # single precision not supported by a function: no history through it
            ctx.count("history:float32_unsupported")
            ctx.notes.append("float32 call failed: %r" % (e,))
    betas = [0.0, math.pi, math.pi / 2] + [rnd.uniform(0, math.pi) for _ in range(n_angles)]
    for bi, beta in enumerate(betas):
        alpha = rnd.uniform(-math.pi, math.pi); gamma = rnd.uniform(-math.pi, math.pi)
        for j2 in range(jmax + 1):
            d = np.array(small_d_matrix(T(beta), j2))[0]
            D = np.array(D_matrix_conj(T(alpha), T(beta), T(gamma), j2))[0]
            idx = list(itertools.product(range(j2 + 1), repeat=2))
            if sample is not None and len(idx) > sample:
                idx = rnd.sample(idx, sample)
            for (mi, ni) in idx:
                m2, n2 = -j2 + 2 * mi, -j2 + 2 * ni
                ctx.evaluations += 2
                ctx.distinct.add(("d", j2, m2, n2, bi))
                cases.append(("d_%d_%d_%d_%d" % (bi, j2, mi, ni),
                              real_stmt("dsmall %d (%d) (%d) %s" % (j2, m2, n2, Rq(beta)), float(d[mi][ni]), rtol=0, atol=2e-12),
                              RT, {"fn": "small_d_matrix", "beta": beta, "j2": j2, "m2": m2, "n2": n2, "impl": float(d[mi][ni])}))
                cases.append(("D_%d_%d_%d_%d" % (bi, j2, mi, ni),
                              cplx_stmt("Dconj %d (%d) (%d) %s %s %s" % (j2, m2, n2, Rq(alpha), Rq(beta), Rq(gamma)), complex(D[mi][ni]), rtol=0, atol=2e-12),
                              RT, {"fn": "D_matrix_conj", "angles": [alpha, beta, gamma], "j2": j2, "m2": m2, "n2": n2, "impl": str(complex(D[mi][ni]))}))
        ctx.count("beta_kind:" + ("0" if beta == 0 else "pi" if beta == math.pi else "generic"))
    return cases


def gather_cases(ctx, rnd, n):
    """_tuple_delta_D_index and get_D_matrix_lambda for spin-list shapes"""
    from tf_pwa.dfun import delta_D_index, get_D_matrix_lambda
    cases = []
    for k in range(n):
        ja2 = rnd.randrange(0, 7)
        jb2 = rnd.randrange(0, 5); jc2 = rnd.randrange(0, 5)
        if (ja2 + jb2 + jc2) % 2:
            jc2 += 1
        half = lambda t: t / 2 if t % 2 else t // 2
        la = [half(-ja2 + 2 * i) for i in range(ja2 + 1)]
        lb = [half(-jb2 + 2 * i) for i in range(jb2 + 1)]
        lc = [half(-jc2 + 2 * i) for i in range(jc2 + 1)]
        if rnd.random() < 0.3 and len(lb) > 1:
            lb = lb[::2]  # restricted helicity list (e.g. photon)
        idx = delta_D_index(half(ja2), la, lb, lc)
        to2 = lambda xs: "[" + ";".join("(%d)" % round(2 * x) for x in xs) + "]"
        stmt = "(if list_eq_dec Z.eq_dec (delta_index %d %s %s %s) [%s] then true else false) = true" % (
            ja2, to2(la), to2(lb), to2(lc), ";".join("(%d)" % i for i in idx))
        ctx.evaluations += 1
        ctx.distinct.add(("gather", ja2, tuple(lb), tuple(lc)))
        cases.append(("gi_%d" % k, "(%s)%%Z" % stmt, "vm_compute; reflexivity", {"fn": "delta_D_index", "ja2": ja2, "lb": lb, "lc": lc}))
        # numeric gather
        a, b, g = [rnd.uniform(-3, 3) for _ in range(3)]
        b = abs(b)
        ang = {"alpha": T(a), "beta": T(b), "gamma": T(g)}
        D = np.array(get_D_matrix_lambda(ang, half(ja2), la, lb, lc))[0]
        ia, ib, ic = rnd.randrange(len(la)), rnd.randrange(len(lb)), rnd.randrange(len(lc))
        cases.append(("gl_%d" % k, cplx_stmt("D_lambda %d (%d) (%d) (%d) %s %s %s" % (
            ja2, round(2 * la[ia]), round(2 * lb[ib]), round(2 * lc[ic]), Rq(a), Rq(b), Rq(g)), complex(D[ia][ib][ic]), rtol=0, atol=2e-12),
            RT, {"fn": "get_D_matrix_lambda", "ja2": ja2, "la": la[ia], "lb": lb[ib], "lc": lc[ic], "impl": str(complex(D[ia][ib][ic]))}))
    return cases


def all_cg_args(jmax2):
    for j1 in range(jmax2 + 1):
        for j2 in range(jmax2 + 1):
            for J in range(abs(j1 - j2), j1 + j2 + 1, 2):
                for m1 in range(-j1, j1 + 1, 2):
                    for m2 in range(-j2, j2 + 1, 2):
                        M = m1 + m2
                        if abs(M) <= J:
                            yield (j1, m1, j2, m2, J, M)


def cg_cases(ctx, rnd, tier):
    from tf_pwa import cg as cgmod
    half = lambda t: Fraction(t, 2)
    py = lambda t: (t // 2) if t % 2 == 0 else t / 2
    args = list(all_cg_args(8))
    if tier == "quick":
        small = [a for a in args if max(a[0], a[2]) <= 3]
        rest = [a for a in args if max(a[0], a[2]) > 3]
        args = rnd.sample(small, min(500, len(small))) + rnd.sample(rest, min(400, len(rest)))
    # tuples with M != m1 + m2 are inside the property's quantifier (all (j1,m1,j2,m2,J,M)): the exact value is 0
    off = []
    for a in rnd.sample(args, min(len(args), 300 if tier == "quick" else 3000)):
        j1, m1, j2, m2, J, M = a
        for M2 in range(-J, J + 1, 2):
            if M2 != M:
                off.append((j1, m1, j2, m2, J, M2))
    args = args + rnd.sample(off, min(len(off), 400 if tier == "quick" else 6000))
    cases = []
    # sympy path (cg_coef) - values grouped per (j1, j2)
    groups = {}
    for a in args:
        j1, m1, j2, m2, J, M = a
        v = cgmod.cg_coef(py(j1), py(j2), py(m1), py(m2), py(J), py(M))
        groups.setdefault((j1, j2), []).append((a, float(v)))
        ctx.evaluations += 1
        if v != 0:
            ctx.distinct.add(("cg",) + a)
    for (j1, j2), items in groups.items():
        for c0 in range(0, len(items), 400):
            chunk = items[c0:c0 + 400]
            lst = "; ".join("(%d,%d,%d,%d,%d,%d,%s)" % (a + (Qq(v),)) for a, v in chunk)
            cases.append(("cg_%d_%d_%d" % (j1, j2, c0), "(forallb (cg_ok (1 # 1000000000000)) [%s] = true)%%Z" % lst, "vm_compute; reflexivity",
                          {"fn": "cg_coef (sympy path)", "j1_2": j1, "j2_2": j2, "n": len(chunk), "items": [(a, v) for a, v in chunk]}))
    ctx.count("cg_sympy_values", sum(len(v) for v in groups.values()))
    # table path (get_cg_coef) - integer spins up to 4, incl. the swap branch j1<j2 and zero-spin shortcut
    targs = [a for a in all_cg_args(8) if a[0] % 2 == 0 and a[2] % 2 == 0 and (a[0] // 2 + a[2] // 2) <= 8]
    if tier == "quick":
        targs = rnd.sample(targs, 600)
    # outside the triangle (exact value 0), in particular behind the zero-spin shortcut (hunt2 C12 finding 1, /repo 9ef724b)
    tri = []
    for j1 in range(0, 9, 2):
        for j2 in range(0, 9, 2):
            for J in range(0, 17, 2):
                if not (abs(j1 - j2) <= J <= j1 + j2):
                    for m1 in range(-j1, j1 + 1, 2):
                        for m2 in range(-j2, j2 + 1, 2):
                            tri.append((j1, m1, j2, m2, J, m1 + m2))
    zero_spin = [a for a in tri if a[0] == 0 or a[2] == 0]
    targs = targs + (rnd.sample(zero_spin, 60) + rnd.sample(tri, 140) if tier == "quick" else tri)
    ctx.count("cg_table_path_outside_triangle", len(tri) if tier != "quick" else 200)
    tg = {}
    for k_, a in enumerate(targs):
        j1, m1, j2, m2, J, M = [t // 2 for t in a]
        if k_ % 3 == 2:
            # integer-valued float spins (GetA2BC_LS_list itself returns s = 1.0): same coefficient
            j1, m1, j2, m2, J, M = [float(t) for t in (j1, m1, j2, m2, J, M)]
            ctx.count("cg_table_path_float_args")
        v = cgmod.get_cg_coef(j1, j2, m1, m2, J, M)
        tg.setdefault((a[0], a[2]), []).append((a, float(v)))
        ctx.evaluations += 1
    for (j1, j2), items in tg.items():
        lst = "; ".join("(%d,%d,%d,%d,%d,%d,%s)" % (a + (Qq(v),)) for a, v in items)
        cases.append(("cgt_%d_%d" % (j1, j2), "(forallb (cg_ok (1 # 1000000000000)) [%s] = true)%%Z" % lst, "vm_compute; reflexivity",
                      {"fn": "get_cg_coef (table path)", "j1_2": j1, "j2_2": j2, "n": len(items), "items": items}))
    ctx.count("cg_table_path_values", sum(len(v) for v in tg.values()))
    # every entry of cg_table.json read from the repo under test
    tab = json.load(open(os.path.join(os.path.dirname(cgmod.__file__), "cg_table.json")))
    ent = []
    for j1, d1 in tab.items():
        for j2, d2 in d1.items():
            for m1, d3 in d2.items():
                for m2, d4 in d3.items():
                    for J, d5 in d4.items():
                        for M, v in d5.items():
                            ent.append(((2 * int(j1), 2 * int(m1), 2 * int(j2), 2 * int(m2), 2 * int(J), 2 * int(M)), float(v)))
    ctx.count("cg_table_json_entries", len(ent))
    if tier == "quick":
        ent = rnd.sample(ent, min(len(ent), 800))
    for c0 in range(0, len(ent), 400):
        chunk = ent[c0:c0 + 400]
        lst = "; ".join("(%d,%d,%d,%d,%d,%d,%s)" % (a + (Qq(v),)) for a, v in chunk)
        cases.append(("cgj_%d" % c0, "(forallb (cg_ok (1 # 1000000000000)) [%s] = true)%%Z" % lst, "vm_compute; reflexivity",
                      {"fn": "cg_table.json", "n": len(chunk), "items": chunk}))
        ctx.evaluations += len(chunk)
    return cases


def su2_cases(ctx, rnd, n):
    """SU2M product / inverse and Euler extraction, incl. rotation-boost-rotation products that compose
    to a pure rotation (b * r * b^-1-type combinations are not unitary; r1*b*b^-1*r2 is)."""
    import tensorflow as tf
    from tf_pwa.angle import SU2M
    cases = []
    for k in range(n):
        a1, b1, g1, a2, b2, g2 = [rnd.uniform(-3, 3) for _ in range(6)]
        b1, b2 = abs(b1), abs(b2)
        om = rnd.uniform(0.1, 1.5)
        R = lambda a, b, g: SU2M.Rotation_z(T(a)) * SU2M.Rotation_y(T(b)) * SU2M.Rotation_z(T(g))
        # two thirds generic (rotation, r1 r2^-1, r1 b b^-1 r2: these reach the second sheet of SU(2)), one third end-point products
        kind = (k % 3) if k < (2 * n) // 3 else 3 + (k % 7)
        atol = 1e-11
        if kind == 0:
            X = R(a1, b1, g1)
        elif kind == 1:
            X = R(a1, b1, g1) * R(a2, b2, g2).inv()
        elif kind == 2:
            X = R(a1, b1, g1) * SU2M.Boost_z(T(om)) * SU2M.Boost_z(T(-om)) * R(a2, b2, g2)
        else:
            # products that compose to beta = 0 or pi, and beta within 1e-8 of them.  Until /repo 8e0f5a7 beta was
            # acos(Re(x00 x11 + x01 x10)), whose conditioning at the end points is sqrt(eps): the rebuilt matrix was
            # off by 2e-8..1e-7 there (hunt2 C12 finding 2); with beta = 2 atan2(|x10|,|x11|) the tolerance is uniform
            if kind == 3:
                X = R(a1, b1, g1) * R(a1, b1, g1).inv()  # identity
            elif kind == 4:
                X = SU2M.Boost_z(T(om)).inv() * SU2M.Rotation_z(T(a1)) * SU2M.Boost_z(T(om))  # boost^-1 Rz boost = Rz
            elif kind == 5:
                X = SU2M.Rotation_y(T(math.pi)) * SU2M.Rotation_z(T(a1))  # beta = pi
            elif kind == 6:
                X = SU2M.Rotation_z(T(a1)) * SU2M.Rotation_y(T(math.pi)) * SU2M.Rotation_z(T(g1))
            elif kind == 7:
                Y = R(a1, b1, g1).inv() * SU2M.Boost_z(T(om)) * R(a1, b1, g1)
                X = Y.inv() * Y  # (R^-1 B R)^-1 (R^-1 B R)
            elif kind == 8:
                X = R(a1, rnd.choice([1e-8, 1e-7, 3e-6]), g1)  # tiny beta
            else:
                X = R(a1, math.pi - rnd.choice([1e-8, 1e-7, 3e-6]), g1)  # beta just below pi
        ctx.count("su2_kind_%d" % kind)
        x = [[complex(np.array(X["x"][i][j]).reshape(-1)[0]) for j in range(2)] for i in range(2)]
        e = X.get_euler_angle()
        al, be, ga = [float(np.array(e[t]).reshape(-1)[0]) for t in ("alpha", "beta", "gamma")]
        ctx.evaluations += 1
        ctx.distinct.add(("su2", k))
        # the extracted angles reproduce the matrix: X = Rz(gamma) Ry(beta) Rz(alpha), i.e. entry-wise
        # x_{mn} = D^{1/2 *}_{nm}(alpha,beta,gamma) (transposed), indices (-1/2, +1/2) <-> (0, 1)
        # the contract of the code's beta = 2 atan2(|x10|, |x11|) (hypotheses of C12_euler_extract_reproduces_atan2)
        cases.append(("su2_%d_contract" % k,
                      "(%s /\\ %s)" % (real_stmt("cos (%s / 2)" % Rq(be), abs(x[1][1]), rtol=0, atol=atol), real_stmt("sin (%s / 2)" % Rq(be), abs(x[1][0]), rtol=0, atol=atol)),
                      RT, {"fn": "SU2M.get_euler_angle (beta contract)", "kind": kind, "x": str(x), "euler": [al, be, ga]}))
        for (i, m2) in ((0, -1), (1, 1)):
            for (j, n2) in ((0, -1), (1, 1)):
                cases.append(("su2_%d_%d%d" % (k, i, j),
                              cplx_stmt("Dconj 1 (%d) (%d) %s %s %s" % (n2, m2, Rq(al), Rq(be), Rq(ga)), x[i][j], rtol=0, atol=atol),
                              RT, {"fn": "SU2M.get_euler_angle", "kind": kind, "x": str(x), "euler": [al, be, ga]}))
    return cases


def search(ctx, fails):
    """direct property tests on the implementation: exact values, unitarity, group law"""
    import sympy
    from tf_pwa import cg as cgmod
    from tf_pwa.dfun import D_matrix_conj, small_d_weight
    py = lambda t: (t // 2) if t % 2 == 0 else t / 2
    for f in fails:
        m = f.get("input") or {}
        if "items" in m:
            from sympy.physics.quantum.cg import CG
            from sympy import Rational as Rt
            for a, v in m["items"]:
                j1, m1, j2, m2, J, M = a
                ex = float(CG(Rt(j1, 2), Rt(m1, 2), Rt(j2, 2), Rt(m2, 2), Rt(J, 2), Rt(M, 2)).doit().evalf(30))
                if abs(ex - v) > 1e-10:
                    return {"function": m["fn"], "args_doubled(j1,m1,j2,m2,J,M)": a, "impl": v, "exact": ex}
    # numeric unitarity / homomorphism of the implementation's D matrices
    rnd = random.Random(1)
    for j2 in range(9):
        a, b, g, a2, b2, g2 = [rnd.uniform(-3, 3) for _ in range(6)]
        D = np.array(D_matrix_conj(T(a), T(abs(b)), T(g), j2))[0]
        err = np.abs(D @ D.conj().T - np.eye(j2 + 1)).max()
        if err > 1e-9:
            return {"function": "D_matrix_conj", "j2": j2, "angles": [a, abs(b), g], "unitarity_defect": float(err)}
    return None


def run(ctx):
    rnd = random.Random(ctx.seed * 1000003 + 12)
    ctx.rule = ("weight table: ALL (l,m,n) for 2j<=8 (exhaustive, exact rational check of square and sign); d/D entries at beta in {0,pi,pi/2}+random, "
                "quick: sampled entries, thorough: all entries; CG: all (j1,m1,j2,m2,J,M) with 2j<=8 in thorough (sample in quick) through the sympy path, the table path "
                "and every cg_table.json entry; SU2M euler extraction on r, r*r^-1, r*b*b^-1*r products; distinct = distinct index tuples with non-zero value")
    common.theorem_stage(ctx)
    quick = ctx.tier == "quick"
    cases = weight_cases(ctx, 8)
    ctx.log("weights", len(cases))
    cases += d_cases(ctx, rnd, 1 if quick else 6, sample=3 if quick else None)
    ctx.log("d", len(cases))
    cases += gather_cases(ctx, rnd, 15 if quick else 150)
    cases += cg_cases(ctx, rnd, ctx.tier)
    ctx.log("cg", len(cases))
    cases += su2_cases(ctx, rnd, 30 if quick else 120)
    ctx.log("all", len(cases))
    for c in cases[:: max(1, len(cases) // 5)]:
        ctx.sample({"case": c[0], "goal": c[1][:300], "meta": {k: (v if k != "items" else "...") for k, v in c[3].items()}})
    exact = [c for c in cases if c[2].startswith("vm_compute")]
    real = [c for c in cases if not c[2].startswith("vm_compute")]
    res = common.coq_cases(ctx, "c12x", HEADER, [c[:3] for c in exact], per_file=12)
    res.update(common.coq_cases(ctx, "c12r", HEADER + "Open Scope R_scope.\n", [c[:3] for c in real], per_file=40, case_timeout=60))
    for cid, stmt, tac, meta in cases:
        if res[cid] != "OK":
            fi = None
            if "items" not in meta:
                fi = dict(meta, coq_result=res[cid])
            ctx.fail("rotation_functions", cid, "implementation differs from the exact model (%s)" % res[cid], inp=meta,
                     site=meta["fn"], fingerprint=meta["fn"], failing_input=fi)
    return common.finish(ctx, search=search, technique=TECHNIQUE, extra_assumptions=[
        "D(R1)D(R2)=D(R1R2) is not yet a theorem of the model (unitarity, symmetry and exactness are); the group law is tied numerically only (search) - see DESIGN.md C12",
        "tolerance 1e-12 on squared radicals, 2e-12 on d/D entries, 1e-9 on Euler-angle reconstruction"])


def replay(rep):
    print(json.dumps(rep, indent=1, default=str))
    return 0
