"""C10 - phase-space events are physical, exactly counted and LIPS-flat.

Theorems: coq/Props/Properties_C10.v.  Tie (Coq-Interval goals at exact dyadic inputs, one layer per goal):
  P  get_p                                   S  set_decay (m_wtMax), get_mass_range
  M  generate_mass  (uniform numbers recorded by wrapping tf.random.uniform during the call)
  W  get_weight / mass_importances           E  generate_momentum_i per step (two-body momenta, recoil boosts)
  O  outputs of generate_momentum / generate / generate_phsp / gen_mc / generate_phsp_p:
     on shell, sum = (M,0,0,0), ladder masses, weight <= 1 (statements about the implementation's values)
  C  counts: generate(N) returns exactly N; length = model generate_out on the recorded accepted batches
  K  cal_max_weight (hunt round): the stored bound after the call = model cal_max_new of the recorded scan weights and
     the optimiser's recorded result (scipy = oracle); afterwards weights of fresh proposals in [0,1], finite bound
  R  re-configured generators: every second generator scenario is built as PhaseSpaceGenerator(other).set_decay(m0, mi)
     and must be indistinguishable from a fresh one (all layers above tie it to the model of the fresh generator)
  N  ConfigLoader.generate_phsp_p / build_phsp_chain: which common node is generated at a fixed mass (model nest_node),
     fixed-mass nodes exact, all other configurations LIPS-flat in m^2(node) (chi^2 against PhaseSpaceGenerator)
"""
import math
import random

import numpy as np

import common
from qfmt import Rq
from fractions import Fraction

TECHNIQUE = ("Coq proof (field/nra, induction over the mass ladder) + Coq-Interval certified correspondence of weights, mass "
             "ladder, two-body steps with the code; on-shell / momentum-sum / count statements certified on every sampled output")

HEADER = ("From Coq Require Import Reals List Lra.\nFrom Interval Require Import Tactic.\n"
          "From TFV Require Import Base.RBase Base.Tie Kin.Boost Kin.Boost_proofs Samp.PhaseSpace.\nImport ListNotations.\nOpen Scope R_scope.\n")
UNF = ("vx vy vz pt px py pz dot3 norm2_3 add3 scale3 neg3 vect mk4 add4 zero4 neg4 mink mass2 mass boost_vector "
       "gamma_of gamma2_of boost_g boost rest_vector rmax get_p rsum rprod q_list wtmax_list wt_max ranges_aux sm0 mass_ranges "
       "gen_mass_aux gen_mass imp_aux importance weight_raw_w weight_w weight_raw weight two_body_p two_body_recoil sum4 app fst snd nth")
TAC = "cbv [%s]; repeat split; interval with (i_prec 90)" % UNF
_SIDE = "(cbv [%s]; interval with (i_prec 90))" % UNF
TAC_B_MAIN = "cbv [boost rest_vector]; rewrite !gamma2_of_main by %s; %s" % (_SIDE, TAC)
TAC_B_GUARD = "cbv [boost rest_vector]; rewrite !gamma2_of_guard by %s; %s" % (_SIDE, TAC)
P4 = ("pt", "px", "py", "pz")


def arr(x):
    return np.array(x, dtype=np.float64)


def V4s(a):
    a = [float(x) for x in np.array(a).reshape(-1)]
    return "(V4 %s %s %s %s)" % tuple(Rq(x) for x in a)


def Rl(xs):
    return "[" + "; ".join(Rq(float(x)) for x in xs) + "]"


def _tolq(scale, rtol, atol):
    t = Fraction(atol).limit_denominator(10 ** 40) + Fraction(rtol).limit_denominator(10 ** 40) * Fraction(abs(float(scale))).limit_denominator(10 ** 40)
    if t == 0:
        t = Fraction(1, 10 ** 30)
    return Rq(t)


def s_real(expr, val, rtol=1e-11, atol=0.0, scale=None):
    val = float(val)
    return "(Rabs (%s - %s) <= %s)" % (expr, Rq(val), _tolq(abs(val) if scale is None else scale, rtol, atol))


def s_vec(expr, vals, rtol=1e-11, atol=0.0, scale=None):
    vals = [float(x) for x in np.array(vals).reshape(-1)]
    sc = max(abs(v) for v in vals) if scale is None else scale
    t = _tolq(sc, rtol, atol)
    return "(" + " /\\ ".join("Rabs (%s (%s) - %s) <= %s" % (pj, expr, Rq(v), t) for pj, v in zip(P4, vals)) + ")"


class Cases:
    def __init__(self, ctx):
        self.ctx = ctx
        self.items = []

    def add(self, layer, cid, stmt, meta, tac=None):
        self.items.append((cid, stmt, tac or TAC, dict(meta, layer=layer)))
        self.ctx.count("goal:" + layer)


def gen_mass_set(rnd, n, kind):
    if kind == "massless":
        mi = [0.0 if rnd.random() < 0.5 else rnd.uniform(0.05, 1.0) for _ in range(n)]
    else:
        mi = [rnd.choice([0.13957, 0.49368, 0.938272, rnd.uniform(0.01, 2.0)]) for _ in range(n)]
    if kind == "threshold":
        q = 10 ** rnd.uniform(-3, -1.5)
    elif kind == "bigQ":
        q = rnd.uniform(3, 10)
    else:
        q = rnd.uniform(0.05, 3)
    return sum(mi) + q, mi


class UniformRecorder:
    """records the outputs of tf.random.uniform while active (the implementation's own random numbers)"""

    def __init__(self):
        self.vals = []

    def __enter__(self):
        import tensorflow as tf
        self.tf = tf
        self.orig = tf.random.uniform

        def w(*a, **k):
            r = self.orig(*a, **k)
            self.vals.append(arr(r))
            return r
        tf.random.uniform = w
        return self

    def __exit__(self, *a):
        self.tf.random.uniform = self.orig


def mass_of(p):
    return math.sqrt(abs(p[0] ** 2 - p[1] ** 2 - p[2] ** 2 - p[3] ** 2))


# FINDING F-C10-1 (reported; see final report / ctx.notes): phasespace.get_p(M, ma, mb) with a Python-float M does
# `tf.cast(M, p.dtype)`, which routes the Python float through float32, and with all-Python-float arguments
# tf.zeros_like(p2) is float32 so tf.where rounds p2 to float32 as well.  Every generator calls get_p(self.m0, ...)
# with the Python float m0 in its last step, so |q| of the last two-body step, m_wtMax and hence the momentum sum
# of EVERY generated event are only accurate to ~4e-8 relative (not double precision).  The check probes for the
# defect: while it is present the affected tolerances are float32-level (TOL_F32) and the measured size is written
# to the evidence notes; once get_p is fixed the tolerances tighten automatically to 1e-9 / 1e-8.
TOL_F32 = 1e-6
_F32 = [None]


def f32_defect():
    if _F32[0] is None:
        import tensorflow as tf
        from tf_pwa.phasespace import get_p
        M, m, b = 6.178990261756896, 4.561921199546818, 0.49368
        v = float(arr(get_p(M, tf.constant([m], tf.float64), b)).reshape(-1)[0])
        ex = math.sqrt((M * M - (m + b) ** 2) * (M * M - (m - b) ** 2)) / (2 * M)
        _F32[0] = abs(v - ex) > 1e-12 * ex
    return _F32[0]


def tol_sum():
    return TOL_F32 if f32_defect() else 1e-9


def tol_w():
    return TOL_F32 if f32_defect() else 1e-8


def gen_state(gen):
    """the attributes of a PhaseSpaceGenerator the other methods read"""
    return {"m0": float(gen.m0), "m_mass": [float(x) for x in gen.m_mass], "sum_mass": float(gen.sum_mass), "m_nt": int(gen.m_nt),
            "mass_range": [[float(x) for x in r] for r in gen.mass_range], "n_mass_generator": len(gen.mass_generator),
            "m_wtMax": float(gen.m_wtMax)}


def output_checks(ctx, cs, cid, m0, mi, ps, k, meta, coq=True, tol=1e-9):
    """event k of the list of momenta ps (one array [N,4] per particle): on shell, sum = (m0,0,0,0)"""
    fails = []
    vecs = [arr(p)[k] for p in ps]
    if not all(np.all(np.isfinite(v)) for v in vecs):
        return ["non-finite momenta %r" % [v.tolist() for v in vecs]]
    tot = sum(vecs)
    for i, (p, m) in enumerate(zip(vecs, mi)):
        # M = sqrt(|E^2-p^2|): absolute accuracy of m^2 ~ E^2 * 1e-16
        if abs(mass_of(p) ** 2 - m * m) > 1e-9 * m0 * m0:
            fails.append("particle %d off shell: M=%r m=%r" % (i, mass_of(p), m))
        if coq:
            cs.add("O.on_shell", "%s_m%d" % (cid, i), s_real("mass2 %s" % V4s(p), m * m, rtol=0, atol=1e-9 * m0 * m0), dict(meta, particle=i, p=p.tolist(), m=m))
    if abs(tot[0] - m0) > tol * m0 or np.max(np.abs(tot[1:])) > tol * m0:
        fails.append("sum of momenta %r is not (%r,0,0,0)" % (tot.tolist(), m0))
    if coq:
        e = "sum4 [" + "; ".join(V4s(p) for p in vecs) + "]"
        cs.add("O.sum", "%s_sum" % cid, s_vec(e, [m0, 0, 0, 0], rtol=0, atol=tol * m0), dict(meta, impl=[p.tolist() for p in vecs]))
    return fails


def generator_cases(ctx, rnd, cs, n, kind, gi, nev, quick):
    """one PhaseSpaceGenerator(m0, mi): all layers; an exception or a non-finite value of the implementation is a
    failure with the mass set as failing input"""
    st = rnd.getstate()
    n0 = len(cs.items)
    try:
        return _generator_cases(ctx, rnd, cs, n, kind, gi, nev, quick)
    except Exception as e:
        import traceback
        rnd.setstate(st)
        m0, mi = gen_mass_set(rnd, n, kind)
        del cs.items[n0:]
        return [dict(layer="O.exception", what="implementation raised / returned a non-finite value: %r" % (e,), case="g%d" % gi,
                     input={"m0": m0, "mi": mi, "kind": kind, "trace": traceback.format_exc()[-800:]})]


def _generator_cases(ctx, rnd, cs, n, kind, gi, nev, quick):
    import tensorflow as tf
    from tf_pwa.phasespace import PhaseSpaceGenerator, get_p
    fails = []
    m0, mi = gen_mass_set(rnd, n, kind)
    gid = "g%d" % gi
    inp = {"m0": m0, "mi": mi, "kind": kind}

    def bad(layer, what, **kw):
        fails.append(dict(layer=layer, what=what, input=dict(inp, **kw), case=gid))
    if gi % 2 == 1:
        # R: a generator that had another decay before (public set_decay) is the generator of (m0, mi)
        m0p, mip = gen_mass_set(rnd, rnd.choice([2, 3, 4, 5]), "generic")
        gen = PhaseSpaceGenerator(m0p, mip)
        gen.set_decay(m0, mi)
        inp["reconfigured_from"] = {"m0": m0p, "mi": mip}
        ctx.count("generator:reconfigured")
        state = gen_state(gen)
        cs.add("S.set_decay_state", gid + "_state", "(g_mass (set_decay_new (init_state %s %s) %s %s) = %s /\\ g_nt (set_decay_new (init_state %s %s) %s %s) = %d%%nat)" % (
            Rq(m0p), Rl(mip), Rq(m0), Rl(mi), Rl(gen.m_mass), Rq(m0p), Rl(mip), Rq(m0), Rl(mi), int(gen.m_nt)),
            {"function": "PhaseSpaceGenerator.set_decay", "input": inp, "impl": state}, tac="split; reflexivity")
        if state != gen_state(PhaseSpaceGenerator(m0, mi)) or state["m_mass"] != [float(x) for x in mi] or state["m_nt"] != n:
            bad("O.set_decay_state", "set_decay on an existing generator leaves a state different from a fresh generator: %r" % (state,))
            return fails
    else:
        gen = PhaseSpaceGenerator(m0, mi)
    a = mi[::-1]
    a0, tl = a[0], a[1:]
    meta = {"function": "PhaseSpaceGenerator", "input": inp}
    ctx.count("generator:n=%d:%s" % (n, kind))
    ctx.distinct.add((m0, tuple(mi)))
    # S: w_max, ranges
    wmax = float(gen.m_wtMax)
    cs.add("S.wt_max", gid + "_wmax", s_real("wt_max %s %s %s" % (Rq(m0), Rq(a0), Rl(tl)), wmax, rtol=tol_w()), dict(meta, function="PhaseSpaceGenerator.set_decay", impl=wmax))
    rng = gen.get_mass_range()
    if len(rng) != n - 2:
        bad("S.ranges", "get_mass_range has %d entries for n=%d" % (len(rng), n))
    for i, (lo, hi) in enumerate(rng):
        e = "nth %d (mass_ranges %s %s %s) (0, 0)" % (i, Rq(m0), Rq(a0), Rl(tl))
        cs.add("S.ranges", "%s_rng%d" % (gid, i), "(Rabs (fst (%s) - %s) <= %s /\\ Rabs (snd (%s) - %s) <= %s)" % (
            e, Rq(float(lo)), _tolq(m0, 1e-13, 0), e, Rq(float(hi)), _tolq(m0, 1e-13, 0)), dict(meta, function="get_mass_range", impl=[float(lo), float(hi)]))
    # M: generate_mass with recorded uniforms
    N = nev
    with UniformRecorder() as ur:
        mass = gen.generate_mass(N)
    mass_n = [arr(x) for x in mass]
    if len(ur.vals) != n - 2 or len(mass_n) != n - 2:
        bad("M.trace", "generate_mass drew %d uniform arrays / returned %d masses for n=%d" % (len(ur.vals), len(mass_n), n))
        return fails
    w_imp = arr(gen.get_weight(mass)) if n > 2 else None
    w_raw = arr(gen.get_weight(mass, importances=False)) if n > 2 else None
    for k in range(N):
        us = [u[k] for u in ur.vals]
        Ms = [x[k] for x in mass_n]
        cid = "%s_e%d" % (gid, k)
        ctx.evaluations += 1
        if n > 2:
            for i in range(n - 2):
                cs.add("M.generate_mass", "%s_M%d" % (cid, i), s_real("nth %d (gen_mass %s %s %s %s) 0" % (i, Rq(m0), Rq(a0), Rl(tl), Rl(us)), Ms[i], rtol=1e-13, atol=1e-15 * m0),
                       dict(meta, function="generate_mass", u=[float(x) for x in us], impl=float(Ms[i])))
            margs = "%s %s %s %s %s" % (Rq(wmax), Rq(m0), Rq(a0), Rl(tl), Rl(Ms))
            # weights: near thresholds get_p = sqrt(small): conditioning absorbed by rtol 1e-7
            cs.add("W.weight", cid + "_w", s_real("weight_w " + margs, w_imp[k], rtol=tol_w(), atol=1e-13), dict(meta, function="get_weight", ladder=[float(x) for x in Ms], impl=float(w_imp[k])))
            cs.add("W.weight_raw", cid + "_wr", s_real("weight_raw_w " + margs, w_raw[k], rtol=tol_w(), atol=1e-13), dict(meta, function="get_weight(importances=False)", ladder=[float(x) for x in Ms], impl=float(w_raw[k])))
            cs.add("O.weight_le_one", cid + "_w1", "(%s <= 1 /\\ 0 <= %s)" % (Rq(float(w_imp[k])), Rq(float(w_imp[k]))), dict(meta, function="get_weight", impl=float(w_imp[k])), tac="split; interval with (i_prec 60)")
            if not (0 <= w_imp[k] <= 1):
                bad("O.weight_le_one", "weight %r outside [0,1]" % float(w_imp[k]), ladder=[float(x) for x in Ms])
    # E: step by step generate_momentum_i with recorded angles, compared to generate_momentum with the same seed
    tf.random.set_seed(1234 + gi)
    ref = [arr(p) for p in gen.generate_momentum(mass, N)]
    tf.random.set_seed(1234 + gi)
    mass_t = [a0] + [x for x in mass] + [m0]
    p_list = []
    steps = []
    for i in range(0, n - 1):
        with UniformRecorder() as ur:
            prev = p_list
            p_list = gen.generate_momentum_i(mass_t[i + 1], mass_t[i], a[i + 1], N, p_list)
        if len(ur.vals) != 2:
            bad("E.trace", "generate_momentum_i drew %d uniform arrays" % len(ur.vals)); return fails
        steps.append((ur.vals[0], ur.vals[1], [arr(p) for p in prev], [arr(p) for p in p_list]))
    if len(ref) != len(p_list) or any(not np.array_equal(x, arr(y)) for x, y in zip(ref, p_list)):
        bad("E.wiring", "generate_momentum is not the sequence of generate_momentum_i steps modelled")
    for k in range(min(N, 2 if quick else 3)):
        cid = "%s_e%d" % (gid, k)
        for i, (u1, u2, prev, out) in enumerate(steps):
            ct = float(arr(2 * tf.constant(u1[k], tf.float64) - 1)); ph = float(arr(2 * math.pi * tf.constant(u2[k], tf.float64)))
            M1 = float(arr(mass_t[i + 1]).reshape(-1)[k] if np.ndim(arr(mass_t[i + 1])) else mass_t[i + 1])
            M0 = float(arr(mass_t[i]).reshape(-1)[k] if np.ndim(arr(mass_t[i])) else mass_t[i])
            args = "%s %s %s %s %s" % (Rq(M1), Rq(M0), Rq(a[i + 1]), Rq(ct), Rq(ph))
            q = float(arr(get_p(tf.constant(M1, tf.float64), M0, a[i + 1])))
            # sqrt conditioning near threshold: absolute tolerance relative to the parent mass
            tb = (tol_w() if i == n - 2 else 1e-8) * M1
            cs.add("E.two_body", "%s_s%d_p" % (cid, i), s_vec("two_body_p " + args, out[0][k], rtol=0, atol=tb, scale=1.0), dict(meta, function="generate_momentum_i", step=i, impl=out[0][k].tolist()))
            # recoil vector as the implementation built it: |p| taken from its own new-particle momentum (in the last
            # step the implementation's q carries the float32 rounding of F-C10-1)
            q_impl2 = float(np.sum(out[0][k][1:] ** 2))
            rec = np.array([math.sqrt(q_impl2 + M0 * M0), out[0][k][1], out[0][k][2], out[0][k][3]])
            if not prev:
                cs.add("E.recoil", "%s_s%d_r" % (cid, i), s_vec("neg4 (two_body_recoil %s)" % args, out[1][k], rtol=0, atol=tb, scale=1.0), dict(meta, function="generate_momentum_i", step=i, impl=out[1][k].tolist()))
            else:
                b2 = float(np.sum(rec[1:] ** 2) / rec[0] ** 2)
                g = 1 / math.sqrt(max(1e-300, 1 - b2))
                for j, pp in enumerate(prev):
                    # layered: boost of the implementation's previous momentum by the implementation's recoil vector
                    cs.add("E.boost", "%s_s%d_b%d" % (cid, i, j), s_vec("rest_vector %s %s" % (V4s(rec), V4s(pp[k])), out[1 + j][k], rtol=1e-9, atol=1e-12 * m0, scale=2 * g * abs(pp[k][0])),
                           dict(meta, function="generate_momentum_i rest_vector", step=i, impl=out[1 + j][k].tolist()), tac=TAC_B_MAIN if b2 > 1e-14 else TAC_B_GUARD)
        # O: outputs
        f = output_checks(ctx, cs, cid, m0, mi, ref, k, dict(meta, function="generate_momentum"), tol=tol_sum())
        for x in f:
            bad("O.event", x, event=k)
        # ladder masses from momenta
        vecs = [r[k] for r in ref]
        for i in range(n - 2):
            Mi = mass_of(sum(vecs[n - 2 - i:]))
            if abs(Mi - mass_n[i][k]) > max(1e-7, tol_sum()) * m0:
                bad("O.ladder", "invariant mass of the last %d particles %r != ladder mass %r" % (i + 2, Mi, float(mass_n[i][k])), event=k)
    return fails


def count_cases(ctx, rnd, cs, quick):
    """generate(N) returns exactly N events (all public entry points)"""
    import tensorflow as tf
    from tf_pwa.phasespace import PhaseSpaceGenerator, generate_phsp
    from tf_pwa.applications import gen_mc
    fails = []

    def bad(layer, what, inp):
        fails.append(dict(layer=layer, what=what, input=inp, case="count"))
    Ns = [1, 2, 7, 100, 1000]
    k = 0
    for n in ([2, 3, 4, 6] if quick else [2, 3, 4, 5, 6]):
        for N in Ns:
            kind = ["generic", "massless", "threshold", "bigQ"][k % 4]
            k += 1
            m0, mi = gen_mass_set(rnd, n, kind)
            inp = {"m0": m0, "mi": mi, "N": N}
            if k % 3 == 2:
                m0p, mip = gen_mass_set(rnd, rnd.choice([2, 3, 4, 5]), "generic")
                inp["reconfigured_from"] = {"m0": m0p, "mi": mip}
                try:
                    gen = PhaseSpaceGenerator(m0p, mip)
                    gen.set_decay(m0, mi)
                except Exception as e:
                    bad("C.count", "set_decay on an existing generator raised %r" % (e,), inp)
                    continue
                ctx.count("count:reconfigured")
                if gen_state(gen) != gen_state(PhaseSpaceGenerator(m0, mi)):
                    # (not run further: a generator in a mixed state may never accept an event)
                    bad("O.set_decay_state", "set_decay on an existing generator leaves a state different from a fresh generator: %r" % (gen_state(gen),), inp)
                    continue
            else:
                gen = PhaseSpaceGenerator(m0, mi)
            acc = []
            of = gen.flatten_mass

            def wf(ms, importances=True, _of=of, _acc=acc):
                r = _of(ms, importances=importances)
                _acc.append(int(r[0].shape[0]))
                return r
            gen.flatten_mass = wf
            inp = dict(inp, accepted_batches=acc)
            try:
                ps = gen.generate(N)
                if not all(np.all(np.isfinite(arr(p))) for p in ps):
                    raise ValueError("non-finite momenta")
            except Exception as e:
                bad("C.count", "generate(%d) raised / returned non-finite values: %r" % (N, e), inp)
                continue
            shapes = [tuple(arr(p).shape) for p in ps]
            ctx.count("count:n=%d:N=%d" % (n, N))
            ctx.evaluations += 1
            ctx.distinct.add(("count", m0, tuple(mi), N))
            if len(ps) != n or any(s != (N, 4) for s in shapes):
                bad("C.count", "generate(%d) returned shapes %r" % (N, shapes), inp)
            if n > 2:
                stmt = "(length (generate_out %d [%s]) = %d)%%nat" % (N, "; ".join("repeat tt %d" % c for c in acc), shapes[0][0])
                cs.add("C.count_model", "cnt_%d_%d" % (n, N), stmt, {"function": "PhaseSpaceGenerator.generate", "input": inp}, tac="vm_compute; reflexivity")
            for ev in sorted(set([0, N - 1, N // 2])):
                f = output_checks(ctx, cs, "cnt_%d_%d_%d" % (n, N, ev), m0, mi, ps, ev, {"function": "PhaseSpaceGenerator.generate", "input": inp}, coq=(ev == 0), tol=tol_sum())
                for x in f:
                    bad("O.event", x, dict(inp, event=ev))
    # nested chains, gen_mc, ConfigLoader.generate_phsp_p
    nested = [(1.0, ((0.3, (0.1, 0.1)), 0.2), [0.1, 0.1, 0.2]),
              (5.0, ((2.0, (0.5, 0.3)), (1.5, (0.2, (0.9, (0.1, 0.13))))), [0.5, 0.3, 0.2, 0.1, 0.13]),
              (3.0, (0.5, (1.2, (0.0, 0.0, 0.4)), 0.3), [0.5, 0.0, 0.0, 0.4, 0.3])]
    for ni, (m0, st, leaves) in enumerate(nested):
        for N in ([7, 100] if quick else Ns):
            inp = {"m0": m0, "struct": repr(st), "N": N}
            try:
                pi = generate_phsp(m0, st, N)
            except Exception as e:
                bad("C.count", "generate_phsp raised %r" % (e,), inp)
                continue
            flat = []

            def fl(t):
                if isinstance(t, (list, tuple)):
                    for x in t:
                        fl(x)
                else:
                    flat.append(t)
            fl(pi)
            inp = {"m0": m0, "struct": repr(st), "N": N}
            ctx.count("count:nested"); ctx.evaluations += 1
            if len(flat) != len(leaves) or any(tuple(arr(p).shape) != (N, 4) for p in flat):
                bad("C.count", "generate_phsp returned shapes %r" % [tuple(arr(p).shape) for p in flat], inp)
                continue
            for ev in sorted(set((0, N - 1))):
                f = output_checks(ctx, cs, "nest%d_%d_%d" % (ni, N, ev), m0, leaves, flat, ev, {"function": "generate_phsp", "input": inp}, coq=(ev == 0), tol=tol_sum())
                for x in f:
                    bad("O.event", x, dict(inp, event=ev))
            # fixed intermediate masses
            if ni == 0:
                mab = mass_of(arr(flat[0])[0] + arr(flat[1])[0])
                if abs(mab - 0.3) > tol_sum():
                    bad("O.nested_mass", "intermediate mass %r != 0.3" % mab, inp)
    for N in [1, 7, 100]:
        m0, mi = gen_mass_set(rnd, 3, "generic")
        try:
            pf = gen_mc(m0, mi, N)
        except Exception as e:
            bad("C.count", "gen_mc raised %r" % (e,), {"m0": m0, "mi": mi, "N": N})
            continue
        ctx.count("count:gen_mc"); ctx.evaluations += 1
        if pf.shape != (N * 3, 4):
            bad("C.count", "gen_mc returned shape %r" % (pf.shape,), {"m0": m0, "mi": mi, "N": N})
        else:
            ps = [pf[i::3] for i in range(3)]
            f = output_checks(ctx, cs, "mc_%d" % N, m0, mi, ps, 0, {"function": "gen_mc", "input": {"m0": m0, "mi": mi, "N": N}}, tol=tol_sum())
            for x in f:
                bad("O.event", x, {"m0": m0, "mi": mi, "N": N})
    try:
        from tf_pwa.utils import create_test_config
        config = create_test_config("BWR", {}, {})
        for N in [1, 7, 100]:
            p = config.generate_phsp_p(N)
            ps = [arr(p[k_]) for k_ in config.get_decay().outs]
            ctx.count("count:generate_phsp_p"); ctx.evaluations += 1
            if any(x.shape != (N, 4) for x in ps):
                bad("C.count", "generate_phsp_p returned shapes %r" % [x.shape for x in ps], {"N": N})
            else:
                f = output_checks(ctx, cs, "cfg_%d" % N, 1.0, [0.1, 0.1, 0.1], ps, 0, {"function": "ConfigLoader.generate_phsp_p", "input": {"N": N}}, tol=tol_sum())
                for x in f:
                    bad("O.event", x, {"N": N})
    except Exception as e:  # reported, not hidden
        bad("C.count", "ConfigLoader.generate_phsp_p raised %r" % (e,), {})
    return fails


# ---------------------------------------------------------------------------------------------- K: cal_max_weight
# fixed members of the scenario family: the shapes the property's quantifier names (many bodies with a large Q value,
# masses in MeV, near threshold, massless daughters - two trailing ones make the lower ladder bound M_1 = 0), with
# the tf seeds under which the independent tester's reproducers (/tmp/hunt_C10 finding_1/2) show the defects of the
# code before the repair; the seeded random members follow
CALMAX_FIXED = [
    (10.58, [0.13957] * 6, (3,)),
    (6000.0, [500.0, 100.0, 1000.0, 300.0, 2000.0, 700.0], (1,)),
    (5000.0, [100.0, 1500.0, 300.0, 100.0, 1000.0], (3,)),
    (1.00001, [0.5, 0.3, 0.1, 0.1], (4, 1)),
    (1.0, [0.2, 0.0, 0.0], (4, 1)),
    (5.28, [0.4937, 0.1396, 0.0, 0.0], (14,)),
    (1.0, [0.0] * 5, (5,)),
    (2.0, [0.5, 0.3], (1,)),
]
CALMAX_NESTED = [(1.0, ((0.3, (0.1, 0.1)), 0.2), [0.1, 0.1, 0.2]),
                 (5.0, ((2.0, (0.5, 0.3)), (1.5, (0.2, (0.9, (0.1, 0.13))))), [0.5, 0.3, 0.2, 0.1, 0.13]),
                 (3.0, (0.5, (1.2, (0.0, 0.0, 0.4)), 0.3), [0.5, 0.0, 0.0, 0.4, 0.3])]


def calmax_scenarios(rnd, quick):
    out = [(m0, list(mi), sd, "fixed") for m0, mi, seeds in CALMAX_FIXED for sd in seeds]
    kinds = ["generic", "massless", "threshold", "bigQ", "massless2", "MeV"]
    k = 0
    for n in (3, 4, 5, 6):
        for _ in range(2 if quick else 8):
            kind = kinds[k % len(kinds)]
            k += 1
            if kind == "massless2":
                m0, mi = gen_mass_set(rnd, n, "generic")
                m0 -= mi[-1] + mi[-2]
                mi[-1] = mi[-2] = 0.0
            elif kind == "MeV":
                m0, mi = gen_mass_set(rnd, n, rnd.choice(["generic", "bigQ"]))
                m0, mi = m0 * 1000.0, [x * 1000.0 for x in mi]
            else:
                m0, mi = gen_mass_set(rnd, n, kind)
            out.append((m0, mi, rnd.randrange(1, 10 ** 6), kind))
    return out


def run_cal_max(gen, seed):
    """gen.cal_max_weight() under tf seed `seed`; records the scan (first batched get_weight call) and the result
    object of scipy.optimize.minimize"""
    import tensorflow as tf
    import scipy.optimize as so
    rec = {"scan": None, "ret": None, "n_weight_calls": 0}
    orig_min, orig_gw = so.minimize, gen.get_weight

    def wmin(*a, **k):
        r = orig_min(*a, **k)
        rec["ret"] = r
        return r

    def gw(ms, importances=True):
        r = orig_gw(ms, importances=importances)
        rec["n_weight_calls"] += 1
        v = np.asarray(r)
        if rec["scan"] is None and rec["ret"] is None and v.ndim == 1 and v.shape[0] > 1:
            rec["scan"] = (ms, arr(v))
        return r
    so.minimize = wmin
    gen.get_weight = gw
    tf.random.set_seed(seed)
    try:
        ret = gen.cal_max_weight()
    finally:
        so.minimize = orig_min
        del gen.get_weight
    rec["returned"] = None if ret is None else float(ret)
    return rec


def weights_after(gen, seed, N=20000):
    """(weights of N fresh uniform proposals, the proposals)"""
    import tensorflow as tf
    tf.random.set_seed(seed)
    mass = gen.generate_mass(N)
    return arr(gen.get_weight(mass)), [arr(x) for x in mass]


def calmax_cases(ctx, rnd, cs, quick):
    import tensorflow as tf
    from tf_pwa.phasespace import ChainGenerator, PhaseSpaceGenerator
    fails = []

    def bad(layer, what, inp):
        fails.append(dict(layer=layer, what=what, input=inp, case="calmax"))
    for si, (m0, mi, seed, kind) in enumerate(calmax_scenarios(rnd, quick)):
        n = len(mi)
        inp = {"m0": m0, "mi": mi, "tf_seed": seed, "kind": kind, "call": "PhaseSpaceGenerator(m0, mi).cal_max_weight()"}
        cid = "K%d" % si
        ctx.count("cal_max:n=%d:%s" % (n, kind)); ctx.evaluations += 1
        ctx.distinct.add(("cal_max", m0, tuple(mi), seed))
        gen = PhaseSpaceGenerator(m0, mi)
        wt0 = float(gen.m_wtMax)
        try:
            rec = run_cal_max(gen, seed)
        except Exception as e:
            bad("C.cal_max", "cal_max_weight raised %r" % (e,), inp)
            continue
        new = float(gen.m_wtMax)
        inp = dict(inp, analytic_wtMax=wt0, wtMax_after=new)
        meta = {"function": "PhaseSpaceGenerator.cal_max_weight", "input": inp}
        if n == 2:
            if new != wt0:
                bad("O.cal_max_two_body", "cal_max_weight changed the exact two-body bound %r -> %r" % (wt0, new), inp)
            continue
        if not (np.isfinite(new) and new > 0):
            bad("O.cal_max_finite", "m_wtMax = %r after cal_max_weight (weights NaN / zero: generate(N) never returns)" % new, inp)
            continue
        if new > wt0 * 1.001 * (1 + 1e-12):
            bad("O.cal_max_range", "m_wtMax %r after cal_max_weight exceeds 1.001 x the analytic bound %r" % (new, wt0), inp)
        if rec["returned"] != new:
            bad("O.cal_max_return", "cal_max_weight returned %r, stored %r" % (rec["returned"], new), inp)
        # property: acceptance weights of fresh proposals in [0, 1]
        w, mass = weights_after(gen, seed + 7919)
        k = int(np.argmax(np.where(np.isfinite(w), w, np.inf)))
        if not np.all(np.isfinite(w)) or w[k] > 1 or np.min(w) < 0:
            bad("O.weight_le_one", "after cal_max_weight the acceptance weight of a proposal is %r (fraction of 20000 proposals above one: %.4f)" % (float(w[k]), float(np.mean(w > 1))),
                dict(inp, ladder=[float(x[k]) for x in mass], weight=float(w[k])))
        # K tie: the stored bound is the model's function of the scan and of the optimiser's result
        if rec["scan"] is None or rec["ret"] is None:
            bad("K.cal_max_trace", "cal_max_weight made %s scan of proposals / %s optimiser call: not the procedure modelled (cal_max_new)" % (
                "no" if rec["scan"] is None else "a", "no" if rec["ret"] is None else "an"), inp)
        else:
            ws = rec["scan"][1]
            ws = np.where(np.isfinite(ws), ws, 0.0)
            kk = int(np.argmax(ws))
            # max of the scan = max of any sub-list containing its largest element: 4 entries are written out
            # (rmax duplicates its argument: the goal grows as 2^length)
            sub = [float(x) for x in ws[:: max(1, len(ws) // 3)][:3]]
            sub.insert(si % 4, float(ws[kk]))
            r = float(-rec["ret"].fun)
            cs.add("K.cal_max", cid + "_new", s_real("cal_max_new %s %s %s" % (Rq(wt0), Rl(sub), Rq(r)), new, rtol=1e-12),
                   dict(meta, scan_max=float(ws[kk]), optimiser_ratio=r, impl=new), tac="cbv [cal_max_new rmaxl rmax]; interval with (i_prec 90)")
            cs.add("O.cal_max_scanned", cid + "_scan", "(reweight %s %s %s <= 1000 / 1001 + 1 / 1000000000000)" % (Rq(wt0), Rq(new), Rq(float(ws[kk]))),
                   dict(meta, scan_max=float(ws[kk]), impl=new), tac="cbv [reweight]; interval with (i_prec 90)")
            # the optimiser's own end point
            xo = np.array([float(lo + u * (hi - lo)) for u, (lo, hi) in zip(np.atleast_1d(rec["ret"].x), gen.mass_range)])
            wo = float(arr(gen.get_weight([tf.constant([x], tf.float64) for x in xo]))[0])
            if np.isfinite(wo) and wo > 1000 / 1001 * (1 + 1e-9):
                bad("O.weight_le_one", "weight %r at the optimiser's end point after cal_max_weight" % wo, dict(inp, ladder=[float(x) for x in xo], weight=wo))
        # generate(N) after cal_max_weight: exact count, physical events (only when proposals can be accepted at all)
        if np.all(np.isfinite(w)) and float(np.mean(np.clip(w, 0, 1))) > 1e-4:
            N = 100
            ps = gen.generate(N)
            if len(ps) != n or any(tuple(arr(p_).shape) != (N, 4) for p_ in ps):
                bad("C.count", "generate(%d) after cal_max_weight returned shapes %r" % (N, [tuple(arr(p_).shape) for p_ in ps]), inp)
            else:
                for x in output_checks(ctx, cs, cid + "_ev", m0, mi, ps, 0, meta, coq=False, tol=tol_sum()):
                    bad("O.event", x, inp)
    # nested chains: ChainGenerator.cal_max_weight visits every sub-generator (two-body ones included)
    for ni, (m0, st, leaves) in enumerate(CALMAX_NESTED):
        inp = {"m0": m0, "struct": repr(st), "call": "ChainGenerator(m0, struct).cal_max_weight(); generate(100)"}
        ctx.count("cal_max:nested"); ctx.evaluations += 1
        try:
            g = ChainGenerator(m0, st)
            tf.random.set_seed(100 + ni)
            g.cal_max_weight()
            wm = [float(x.m_wtMax) for x in g.gen]
            if not all(np.isfinite(x) and x > 0 for x in wm):
                bad("O.cal_max_finite", "m_wtMax of the sub-generators after ChainGenerator.cal_max_weight: %r" % (wm,), inp)
                continue
            for x in g.gen:
                if x.m_nt > 2:
                    w, mass = weights_after(x, 200 + ni)
                    if not np.all(np.isfinite(w)) or np.max(w) > 1 or np.min(w) < 0:
                        k = int(np.argmax(w))
                        bad("O.weight_le_one", "after ChainGenerator.cal_max_weight a sub-generator has a proposal of weight %r" % float(w[k]),
                            dict(inp, sub_generator={"m0": x.m0, "mi": list(x.m_mass)}, ladder=[float(y[k]) for y in mass]))
            pi = g.generate(100)
        except Exception as e:
            bad("C.cal_max", "ChainGenerator.cal_max_weight / generate raised %r" % (e,), inp)
            continue
        flat = []

        def fl(t):
            if isinstance(t, (list, tuple)):
                for x in t:
                    fl(x)
            else:
                flat.append(t)
        fl(pi)
        if len(flat) != len(leaves) or any(tuple(arr(p_).shape) != (100, 4) for p_ in flat):
            bad("C.count", "generate after cal_max_weight returned shapes %r" % [tuple(arr(p_).shape) for p_ in flat], inp)
            continue
        for x in output_checks(ctx, cs, "Knest%d" % ni, m0, leaves, flat, 0, {"function": "ChainGenerator.cal_max_weight", "input": inp}, coq=False, tol=tol_sum()):
            bad("O.event", x, inp)
    return fails


# ---------------------------------------------------------------------------------------------- N: nested nodes chosen by the config
def _minv2(*ps):
    s = sum(arr(p) for p in ps)
    return s[:, 0] ** 2 - np.sum(s[:, 1:] ** 2, axis=1)


def config_nest_cases(ctx, rnd, cs, quick):
    """A -> X D, X -> B C with several particles X sharing the (B, C) node: constant ("one") particles with a mass and
    resonances in all orders.  The node is generated at a fixed mass iff all X are constant with the same mass (model
    nest_node); then m(BC) is that mass exactly, otherwise the sample is LIPS-flat."""
    import tensorflow as tf
    from tf_pwa.config_loader import ConfigLoader
    from tf_pwa.config_loader.sample import build_phsp_chain
    from tf_pwa.phasespace import PhaseSpaceGenerator
    fails = []

    def bad(layer, what, inp):
        fails.append(dict(layer=layer, what=what, input=inp, case="config"))
    N = 20000
    shapes = ["one,bw", "bw,one", "one,one_same", "one,one_other", "bw,bw", "one", "one,bw,one_same", "one,one_same,one_same"]
    if not quick:
        shapes = shapes * 3
    for ci, shape in enumerate(shapes):
        mB, mC, mD = [round(rnd.uniform(0.1, 0.6), 3) for _ in range(3)]
        m0 = round(mB + mC + mD + rnd.uniform(1.0, 4.0), 3)
        m_fix = round(mB + mC + rnd.uniform(0.2, 0.8) * (m0 - mB - mC - mD), 3)
        parts, particle, chains = [], {}, []
        for j, kind in enumerate(shape.split(",")):
            name = "X%d" % j
            if kind == "bw":
                mass = round(rnd.uniform(mB + mC, m0 - mD), 3)
                particle[name] = {"J": 0, "P": 1, "mass": mass, "width": 0.1}
            else:
                mass = m_fix if kind in ("one", "one_same") else round(m_fix + 0.05 * (m0 - mD - m_fix) + 0.001, 3)
                particle[name] = {"J": 0, "P": 1, "mass": mass, "model": "one"}
            parts.append((kind != "bw", mass))
            chains.append([name, "D"])
        cfg = {"data": {"dat_order": ["B", "C", "D"]},
               "decay": dict({"A": chains}, **{"X%d" % j: ["B", "C"] for j in range(len(parts))}),
               "particle": dict({"$top": {"A": {"J": 0, "P": 1, "mass": m0}},
                                 "$finals": {k_: {"J": 0, "P": 1, "mass": m_} for k_, m_ in (("B", mB), ("C", mC), ("D", mD))}}, **particle)}
        inp = {"config": cfg, "shape": shape, "call": "ConfigLoader(config).generate_phsp_p(%d)" % N}
        ctx.count("config_nest:" + shape); ctx.evaluations += 1
        ctx.distinct.add(("config_nest", m0, mB, mC, mD, tuple(parts)))
        try:
            config = ConfigLoader(cfg)
            m0_i, mi_i, idx = build_phsp_chain(config.get_decay())
            nested = [x for x in mi_i if isinstance(x, (tuple, list))]
            tf.random.set_seed(300 + ci)
            p = {str(k_): arr(v) for k_, v in config.generate_phsp_p(N, cal_max=(ci % 2 == 1)).items()}
        except Exception as e:
            bad("C.config", "build_phsp_chain / generate_phsp_p raised %r" % (e,), inp)
            continue
        impl = float(nested[0][0]) if nested else None
        model = parts[0][1] if all(b for b, _ in parts) and len(set(m for _, m in parts)) == 1 else None
        meta = {"function": "build_phsp_chain", "input": inp, "impl": impl}
        plist = "[" + "; ".join("(%s, %s)" % ("true" if b else "false", Rq(m)) for b, m in parts) + "]"
        cs.add("N.nest_node", "N%d" % ci, "(nest_node %s = %s)" % (plist, "None" if impl is None else "Some %s" % Rq(impl)), meta,
               tac="cbv [nest_node forallb fst snd same_mass andb]; repeat (destruct (Req_EM_T _ _); try lra); reflexivity")
        if impl != model:
            bad("O.config_nested_node", "node (B, C) generated with %s, particles there: %r" % ("the fixed mass %r" % impl if impl is not None else "a free mass", parts), inp)
        ps = [p["B"], p["C"], p["D"]]
        if any(x.shape != (N, 4) for x in ps):
            bad("C.count", "generate_phsp_p returned shapes %r" % [x.shape for x in ps], inp)
            continue
        for ev in (0, N - 1):
            for x in output_checks(ctx, cs, "N%d_%d" % (ci, ev), m0, [mB, mC, mD], ps, ev, {"function": "ConfigLoader.generate_phsp_p", "input": inp}, coq=(ev == 0), tol=tol_sum()):
                bad("O.event", x, inp)
        s_bc = _minv2(ps[0], ps[1])
        if model is not None:
            dev = float(np.max(np.abs(np.sqrt(np.abs(s_bc)) - model)))
            if dev > max(1e-9, tol_sum()) * m0:
                bad("O.nested_mass", "fixed intermediate mass: max |m(BC) - %r| = %r" % (model, dev), inp)
        else:
            # flat Dalitz plot: m^2(BC) spectrum against an independent PhaseSpaceGenerator sample (two-sample chi^2,
            # false alarm ~1e-9 at z > 6)
            tf.random.set_seed(400 + ci)
            ref = [arr(x) for x in PhaseSpaceGenerator(m0, [mB, mC, mD]).generate(N)]
            edges = np.linspace((mB + mC) ** 2, (m0 - mD) ** 2, 13)
            h1, _ = np.histogram(s_bc, edges)
            h2, _ = np.histogram(_minv2(ref[0], ref[1]), edges)
            msk = (h1 + h2) > 20
            chi2 = float(np.sum((h1[msk] - h2[msk]) ** 2 / (h1[msk] + h2[msk]))); dof = int(np.sum(msk))
            z = ((chi2 / dof) ** (1 / 3) - (1 - 2 / (9 * dof))) / math.sqrt(2 / (9 * dof))
            if int(np.sum(h1)) != N or z > 6:
                bad("O.config_flat", "generate_phsp_p is not flat in m^2(BC): chi2 = %.1f / %d against PhaseSpaceGenerator (std of m(BC) %.3g, reference %.3g)" % (
                    chi2, dof, float(np.std(np.sqrt(np.abs(s_bc)))), float(np.std(np.sqrt(np.abs(_minv2(ref[0], ref[1])))))), inp)
    return fails


def getp_cases(ctx, rnd, cs, n):
    import tensorflow as tf
    from tf_pwa.phasespace import get_p
    for k in range(n):
        a, b = rnd.uniform(0, 2), rnd.uniform(0, 2)
        if k % 4 == 0:
            a = 0.0
        M = (a + b) * rnd.uniform(0.5, 0.999) if k % 3 == 0 else a + b + 10 ** rnd.uniform(-3, 1)
        if M <= 0:
            M = 0.5
        v = float(arr(get_p(tf.constant(M, tf.float64), a, b)))
        cs.add("P.get_p", "P%d" % k, s_real("get_p %s %s %s" % (Rq(M), Rq(a), Rq(b)), v, rtol=1e-9, atol=1e-9 * M), {"function": "get_p", "input": {"M": M, "a": a, "b": b}, "impl": v})
        ctx.distinct.add(("get_p", M, a, b)); ctx.evaluations += 1


def search(ctx, fails):
    """maximise the acceptance weight over mass sets and ladders on the implementation (weight > 1?), off-shell
    residuals, count mismatches; thorough adds a chi^2 flatness test of the Dalitz plot as support"""
    import time
    import tensorflow as tf
    from tf_pwa.phasespace import PhaseSpaceGenerator
    rnd = random.Random(ctx.seed * 1000003 + 1010)
    t0 = time.time()
    budget = 60 if ctx.tier == "quick" else 600
    it = 0
    while time.time() - t0 < budget and it < 2000:
        it += 1
        n = rnd.choice([3, 4, 5, 6])
        m0, mi = gen_mass_set(rnd, n, rnd.choice(["generic", "massless", "threshold", "bigQ"]))
        gen = PhaseSpaceGenerator(m0, mi)
        N = 2000
        mass = gen.generate_mass(N)
        w = arr(gen.get_weight(mass))
        k = int(np.argmax(w))
        if w[k] > 1 + 1e-12 or np.min(w) < 0 or not np.all(np.isfinite(w)):
            return {"property": "acceptance weight in [0,1]", "m0": m0, "mi": mi, "ladder": [float(arr(x)[k]) for x in mass], "weight": float(w[k])}
        # corners of the ladder ranges
        rng = gen.get_mass_range()
        if rng:
            lad = []
            lo = mi[-1]
            ok = True
            for i, (a_, b_) in enumerate(rng):
                lo = lo + mi[-i - 2]
                x = rnd.choice([lo, b_, rnd.uniform(lo, b_)]) if b_ >= lo else None
                if x is None:
                    ok = False; break
                lad.append(tf.constant([x], tf.float64)); lo = x
            if ok:
                wc = float(arr(gen.get_weight(lad))[0])
                if wc > 1 + 1e-12 or wc < 0:
                    return {"property": "acceptance weight in [0,1]", "m0": m0, "mi": mi, "ladder": [float(arr(x)[0]) for x in lad], "weight": wc}
        if it % 4 == 0:
            # the same after cal_max_weight (on a generator of its own)
            g2 = PhaseSpaceGenerator(m0, mi)
            sd = rnd.randrange(1, 10 ** 6)
            tf.random.set_seed(sd)
            try:
                g2.cal_max_weight()
            except Exception as e:
                return {"property": "cal_max_weight keeps the acceptance weight in [0,1]", "m0": m0, "mi": mi, "tf_seed": sd, "error": repr(e)[:500]}
            w2 = arr(g2.get_weight(mass))
            k2 = int(np.argmax(np.where(np.isfinite(w2), w2, np.inf)))
            if not np.all(np.isfinite(w2)) or w2[k2] > 1 or np.min(w2) < 0:
                return {"property": "acceptance weight in [0,1] after cal_max_weight", "m0": m0, "mi": mi, "tf_seed": sd, "call": "PhaseSpaceGenerator(m0, mi).cal_max_weight()",
                        "ladder": [float(arr(x)[k2]) for x in mass], "weight": float(w2[k2]), "wtMax_after": float(g2.m_wtMax)}
        Nq = rnd.choice([1, 2, 7, 100])
        try:
            ps = gen.generate(Nq)
        except Exception as e:
            return {"property": "generate(N) returns N events", "m0": m0, "mi": mi, "N": Nq, "error": repr(e)[:500]}
        if any(tuple(arr(p).shape) != (Nq, 4) for p in ps):
            return {"property": "generate(N) returns N events", "m0": m0, "mi": mi, "N": Nq, "shapes": [tuple(arr(p).shape) for p in ps]}
        f = output_checks(ctx, None, "s", m0, mi, ps, 0, {}, coq=False, tol=tol_sum())
        if f:
            return {"property": "events on shell and summing to the parent at rest", "m0": m0, "mi": mi, "N": Nq, "what": f[0]}
    if ctx.tier == "thorough":
        # support only: chi^2 flatness of the Dalitz plot (3 bodies), false-alarm 1e-9
        m0, mi = 3.0, [0.5, 0.3, 0.2]
        ps = [arr(p) for p in PhaseSpaceGenerator(m0, mi).generate(200000)]
        s12 = (ps[0][:, 0] + ps[1][:, 0]) ** 2 - np.sum((ps[0][:, 1:] + ps[1][:, 1:]) ** 2, axis=1)
        s23 = (ps[1][:, 0] + ps[2][:, 0]) ** 2 - np.sum((ps[1][:, 1:] + ps[2][:, 1:]) ** 2, axis=1)
        nb = 12
        h, xe, ye = np.histogram2d(s12, s23, bins=nb)
        # bins fully inside the physical region: all four corners physical
        def inside(x, y):
            m1, m2, m3 = mi
            e2 = (x - m1 * m1 + m2 * m2) / (2 * math.sqrt(x)); e3 = (m0 * m0 - x - m3 * m3) / (2 * math.sqrt(x))
            if e2 < m2 or e3 < m3:
                return False
            p2 = math.sqrt(e2 * e2 - m2 * m2); p3 = math.sqrt(e3 * e3 - m3 * m3)
            return (e2 + e3) ** 2 - (p2 + p3) ** 2 <= y <= (e2 + e3) ** 2 - (p2 - p3) ** 2
        cells = [h[i, j] for i in range(nb) for j in range(nb) if all(inside(x, y) for x in (xe[i], xe[i + 1]) for y in (ye[j], ye[j + 1]))]
        if len(cells) > 5:
            mu = np.mean(cells)
            chi2 = float(np.sum((np.array(cells) - mu) ** 2 / mu)); dof = len(cells) - 1
            # Wilson-Hilferty normal approximation, z > 6 ~ 1e-9
            z = ((chi2 / dof) ** (1 / 3) - (1 - 2 / (9 * dof))) / math.sqrt(2 / (9 * dof))
            ctx.notes.append("Dalitz flatness support test: chi2=%.1f dof=%d z=%.2f" % (chi2, dof, z))
            if z > 6:
                return {"property": "Dalitz plot flat (support test)", "m0": m0, "mi": mi, "chi2": chi2, "dof": dof, "z": z}
    return None


def run(ctx):
    import bootstrap
    bootstrap.tf_quiet()
    rnd = random.Random(ctx.seed * 1000003 + 10)
    quick = ctx.tier == "quick"
    ctx.rule = ("seeded mass sets n=2..6 (generic, massless daughters, Q from 1e-3, Q up to 10) x events; uniform numbers of the implementation "
                "recorded; every second generator re-configured through set_decay; counts for N in {1,2,7,100,1000}; nested generate_phsp, gen_mc, "
                "ConfigLoader.generate_phsp_p; cal_max_weight on fixed (6 pions at 10.58, MeV masses, Q = 1e-5, two trailing massless daughters, 2 bodies) "
                "and seeded mass sets x tf seeds, ChainGenerator.cal_max_weight on nested chains; configs with constant / resonant particles sharing a node "
                "in all orders.  distinct = distinct (m0, mi) / inputs")
    common.theorem_stage(ctx)
    cs = Cases(ctx)
    getp_cases(ctx, rnd, cs, 12 if quick else 120)
    pyfails = []
    kinds = ["generic", "massless", "threshold", "bigQ"]
    gi = 0
    for n in (2, 3, 4, 5, 6):
        for kind in (kinds[(n + j) % 4] for j in range(1 if quick else 4)):
            pyfails += generator_cases(ctx, rnd, cs, n, kind, gi, 2 if quick else 4, quick)
            gi += 1
    ctx.log("generator goals", len(cs.items), "python failures", len(pyfails))
    pyfails += count_cases(ctx, rnd, cs, quick)
    pyfails += calmax_cases(ctx, random.Random(ctx.seed * 1000003 + 1011), cs, quick)
    pyfails += config_nest_cases(ctx, random.Random(ctx.seed * 1000003 + 1012), cs, quick)
    ctx.log("all goals", len(cs.items), "python failures", len(pyfails))
    try:  # measured size of the float32 observation (not a pass/fail criterion here; reported as a finding)
        from tf_pwa.phasespace import PhaseSpaceGenerator
        pp = [arr(x)[0] for x in PhaseSpaceGenerator(1.0, [0.3, 0.2]).generate(1)]
        ctx.notes.append("FINDING F-C10-1 float32 get_p (defect present: %s):" % f32_defect() + " PhaseSpaceGenerator(1.0,[0.3,0.2]).generate(1): E1+E2-1 = %.3e (double precision would give ~1e-16)" % (pp[0][0] + pp[1][0] - 1.0))
        if f32_defect():
            ctx.log("FINDING F-C10-1 (reported, tolerances widened to %g): get_p routes Python-float masses through float32; E1+E2-M = %.2e for PhaseSpaceGenerator(1.0,[0.3,0.2])" % (TOL_F32, pp[0][0] + pp[1][0] - 1.0))
    except Exception as e:
        ctx.notes.append("observation probe raised %r" % (e,))
    for c in cs.items[:: max(1, len(cs.items) // 5)]:
        ctx.sample({"case": c[0], "goal": c[1][:300], "meta": {k: v for k, v in c[3].items() if k != "input"}})
    res = common.coq_cases(ctx, "phsp", HEADER, [c[:3] for c in cs.items], per_file=max(20, len(cs.items) // 48 + 1), case_timeout=90)
    for cid, stmt, t, meta in cs.items:
        if res[cid] != "OK":
            fi = None
            if meta["layer"].startswith("O.") or meta["layer"].startswith("C."):
                fi = {k: v for k, v in meta.items() if k != "layer"}  # statement about implementation outputs: the input is the failing input
            ctx.fail(meta["layer"], cid, "implementation value not within tolerance of the model / output property does not hold (%s)" % res[cid],
                     inp=meta, site=meta["function"].split(" ")[0], fingerprint=meta["layer"], failing_input=fi)
    for f in pyfails:
        ctx.fail(f["layer"], f.get("case", "?"), f["what"], inp=f["input"], site="PhaseSpaceGenerator", fingerprint=f["layer"],
                 failing_input=dict(f["input"], what=f["what"]) if f["layer"][0] in "OC" else None)
    return common.finish(ctx, search=search, technique=TECHNIQUE, extra_assumptions=[
        "tf.random.uniform is an oracle: its outputs are recorded and fed to the model; uniformity/independence is not proved (thorough: chi^2 flatness support test)",
        "real-number model; tolerances: weights rtol 1e-8, momenta atol 1e-8*M (sqrt conditioning at threshold), on-shell |m^2 residual| <= 1e-9 M^2, momentum sum 1e-9 M",
        "the refill loop of generate() terminates only if batches keep accepting events (oracle); custom mass_generator objects are not covered",
        "cal_max_weight: scipy's optimiser is an oracle (its result is recorded and fed to the model cal_max_new); that no ladder at all exceeds weight one "
        "afterwards holds if the optimiser finds the global maximum (C10_cal_max_global_given_oracle) and is tested on 20000 fresh proposals per scenario"])


def replay(rep):
    import json
    print(json.dumps(rep, indent=1, default=str))
    return 0
