"""C04 - spinless cascades reproduce the closed-form Legendre x Breit-Wigner amplitude.

Theorems: coq/Props/Properties_C04.v.  Tie: ConfigLoader(dict) with J=0 externals; for each event
three layers are certified inside Coq by interval arithmetic:
 (K) invariant mass and helicity-angle cosine from the momenta  vs  the implementation's cal_angle output,
 (A) closed-form chain amplitude (given the implementation's own m_R and cos theta)  vs  the implementation's chain amplitude,
 (D) |sum_k a_k|^2 of the implementation's chain amplitudes  vs  the implementation's density.
The closed form tied in (A) is Amp/Pipeline0.v res_amp_core_abs (production barrier after the repair of Bprime_q2: modulus of the polynomial at
the nominal momentum); a density that is not a finite number fails layer "finite" with the event as failing input."""
import math
import random

import numpy as np

import ampkit
import common
from qfmt import Rq
from rcases import cplx_stmt, real_stmt

TECHNIQUE = "Coq proof (polynomial identities d^J_00=P_J, exact CG radicals, invariance of the closed form) + layered Coq-Interval correspondence"

HEADER = ("From Coq Require Import Reals List ZArith.\nFrom Interval Require Import Tactic.\n"
          "From TFV Require Import Base.RBase Base.Tie Shape.LineShapes Amp.Dalitz3 Amp.Pipeline0.\nImport ListNotations.\nOpen Scope R_scope.\n")
RT = "repeat split; rcompute; rclose"


def P4q(v):
    return "(%s, %s, %s, %s)" % tuple(Rq(x) for x in v)


BP_COEF = {0: [1], 1: [1, 1], 2: [1, 3, 9], 3: [1, 6, 45, 225], 4: [1, 10, 135, 1575, 11025]}


def q02_of(M0, m0R, mk):
    """signed break-up momentum squared of A -> R k at the nominal mass of R"""
    return (M0 - (m0R + mk)) * (M0 + (m0R + mk)) * (M0 - (m0R - mk)) * (M0 + (m0R - mk)) / (2 * M0) ** 2


def nominal_poly(J, M0, m0R, mk, d=3.0):
    """Blatt-Weisskopf polynomial P_J(q0^2 d^2) of the production vertex at the nominal mass (negative: odd J far beyond the limit)"""
    return float(np.polyval(BP_COEF[J], q02_of(M0, m0R, mk) * d * d))


def build(rnd, J_list=None, nres=None, beyond=False, pairs_forced=None):
    mf = {k: rnd.uniform(0.1, 0.5) for k in ampkit.FINALS}
    M0 = sum(mf.values()) + rnd.uniform(0.8, 2.0)
    pairs = list(ampkit.PAIRS)
    nres = nres or rnd.choice([1, 2, 3])
    chosen = list(pairs_forced) if pairs_forced else rnd.sample(pairs, nres)
    if beyond == "far":  # heavy spectator of the first chain: m_k d > sqrt(5.1) makes P_3(q0^2 d^2) < 0 reachable
        mf[ampkit.PAIRS[chosen[0]][2]] = rnd.uniform(0.85, 1.2)
        M0 = sum(mf.values()) + rnd.uniform(0.8, 2.0)
    res = {}
    for n, pr in enumerate(chosen):
        i, j, k = ampkit.PAIRS[pr]
        J = J_list[n] if J_list else rnd.randrange(0, 5)
        lo, hi = mf[i] + mf[j], M0 - mf[k]
        mass = rnd.uniform(hi + 0.02, hi + 0.15) if (beyond and n == 0) else rnd.uniform(lo + 0.05, hi + 0.15)
        if beyond == "far" and n == 0:
            # odd J, nominal mass so far beyond the kinematic limit that P_J(q0^2 d^2) < 0 (J=1: q0^2 < -1/d^2; J=3: q0^2 d^2 < -5.1)
            # (q0^2 >= -m_k^2 about, reached near m0 = M: the spectator was made heavy above)
            assert J % 2 == 1
            negs = [hi + 0.01 * t for t in range(1, int(200 * mf[k])) if nominal_poly(J, M0, hi + 0.01 * t, mf[k]) < -0.2]
            assert negs, (J, M0, mf)
            mass = rnd.choice(negs)
        res[pr] = {"pair": pr, "J": J, "P": (1 if J % 2 == 0 else -1), "mass": mass, "width": rnd.uniform(0.03, 0.3)}
    return M0, mf, res


def polar_of(pars, prefix):
    return pars[prefix + "r"], pars[prefix + "i"]


def run_config(ctx, rnd, tag, M0, mf, res, nev, cases, p4=None, pars=None, info=None, vcases=None, at_threshold=(), a_atol=0.0):
    """at_threshold: chains whose resonance system sits at its own threshold in these events (helicity angle 0/0: the cos part of
    layer K is not stated, layer A compares with the absolute tolerance a_atol: the closed form is q^J -> 0 there)"""
    from tf_pwa.config_loader import ConfigLoader
    cfg = ampkit.three_body_config(M0, mf, res)
    config = ConfigLoader(cfg)
    amp = config.get_amplitude()
    if pars is None:
        pars = ampkit.random_params(amp, rnd)
    else:
        amp.set_params(pars)
    if p4 is None:
        p4 = ampkit.gen_events(M0, mf, nev, rnd.randrange(10 ** 6))
    nev = len(p4["B"])
    data = config.data.cal_angle(p4)
    if vcases is not None and any(r["J"] and nominal_poly(r["J"], M0, r["mass"], mf[ampkit.PAIRS[r["pair"]][2]]) < 0 for r in res.values()):
        # Amp/Chain.v carries the production barrier of the code before the repair of Bprime_q2; it equals the repaired one
        # (C04_generic_pipeline_is_closed_form_abs) unless the polynomial at the nominal momentum is negative: closed form only there
        ctx.count("generic_vertex_layers:skipped_negative_nominal_polynomial")
        vcases = None
    if vcases is not None:
        # the GENERIC pipeline layers of the same model (LS couplings with CG radicals, barrier, vertex = H * D*), tied to Amp/Chain.v;
        # their composition for spin-0 externals is the closed form by theorem C04_generic_pipeline_is_closed_form
        import amplayers
        with amplayers.VertexCapture() as cap:
            dens = np.array(amp(data))
        vcases.extend(amplayers.vertex_cases(ctx, tag, cap, [0], rnd, max_comp=2, meta0={"config": cfg}))
    else:
        dens = np.array(amp(data))
    per_chain, full = ampkit.chain_amps(amp, data)
    dg = amp.decay_group
    d = 3.0
    # a density or chain amplitude that is not a finite number is a failure of its own (nothing to state inside Coq)
    skip = set()
    for e in range(nev):
        if not (np.isfinite(dens[e]) and all(np.isfinite(pc.reshape(-1)[e]) for pc in per_chain)):
            skip.add(e)
            ev = {x: p4[x][e].tolist() for x in ampkit.FINALS}
            try:
                ref = reference_density(cfg, pars, ev)
            except Exception as ex:
                ref = repr(ex)
            ctx.count("not_finite")
            ctx.fail("finite", "F_%s_e%d" % (tag, e), "implementation density %r (chain amplitudes %s), closed form %r" % (
                float(dens[e]), [str(complex(pc.reshape(-1)[e])) for pc in per_chain], ref),
                inp={"config": cfg, "event": ev}, site="amplitude:finite", fingerprint="finite",
                failing_input={"config": cfg, "params": {kk: float(v) for kk, v in pars.items()}, "events": {x: [p4[x][e].tolist()] for x in ampkit.FINALS},
                               "event": ev, "impl_density": float(dens[e]), "closed_form_density": ref})
    for ci, ch in enumerate(dg.chains):
        name = [str(r) for r in ch.inner][0]
        i, j, k = ampkit.PAIRS[res[name]["pair"]]
        J = res[name]["J"]
        # locate the implementation's own layer values
        mR = None; beta = None
        for pk, pv in data["particle"].items():
            if str(pk) == "(%s, %s)" % (i, j):
                mR = np.array(pv["m"])
        for ck, cv in data["decay"].items():
            for dk, dv in cv.items():
                if hasattr(dk, "core") and str(dk.core) == "(%s, %s)" % (i, j):
                    first = [o for o in dk.outs][0]
                    assert str(first) == i, (str(first), i)
                    beta = np.array(dv[first]["ang"]["beta"])
        assert mR is not None and beta is not None
        tn = [kk[:-1] for kk in pars if "total_0r" in kk and name in kk][0]
        g1 = [kk[:-1] for kk in pars if kk.startswith("A->" + name) and "g_ls_0r" in kk][0]
        g2 = [kk[:-1] for kk in pars if kk.startswith(name + "->") and "g_ls_0r" in kk][0]
        cexpr = "(Cmul (polar %s %s) (Cmul (polar %s %s) (polar %s %s)))" % tuple(Rq(x) for x in (polar_of(pars, tn) + polar_of(pars, g1) + polar_of(pars, g2)))
        m0R = float(pars[name + "_mass"]); g0R = float(pars[name + "_width"])
        a_impl = per_chain[ci].reshape(-1)
        ctx.count("J=%d" % J); ctx.count("nres=%d" % len(res))
        for e in range(nev):
            if e in skip:
                continue
            if not (np.isfinite(beta[e]) and np.isfinite(mR[e])):  # angle undefined (0/0) and irrelevant for the density
                ctx.count("chain_layers_skipped:angle_undefined")
                continue
            pi, pj, pk_ = p4[i][e], p4[j][e], p4[k][e]
            cid = "%s_c%d_e%d" % (tag, ci, e)
            meta = {"config": cfg, "params": {kk: float(v) for kk, v in pars.items()}, "event": {x: p4[x][e].tolist() for x in ampkit.FINALS}, "chain": name, "J": J}
            # (K) kinematic layer
            stmtK = real_stmt("sqrt (inv2 %s %s)" % (P4q(pi), P4q(pj)), float(mR[e]), rtol=1e-10) if name in at_threshold else "(%s /\\ %s)" % (
                real_stmt("sqrt (inv2 %s %s)" % (P4q(pi), P4q(pj)), float(mR[e]), rtol=1e-10),
                real_stmt("cos_hel %s %s %s %s (inv2 %s %s) (inv2 %s %s)" % (Rq(M0), Rq(mf[i]), Rq(mf[j]), Rq(mf[k]), P4q(pi), P4q(pj), P4q(pi), P4q(pk_)),
                          math.cos(float(beta[e])), rtol=0, atol=1e-8))
            cases.append(("K_" + cid, stmtK, RT, dict(meta, layer="kinematics", impl_mR=float(mR[e]), impl_cos=math.cos(float(beta[e])))))
            # (Q) break-up momenta: model get_relative_p vs the implementation's function on its own masses
            from tf_pwa.amp.core import get_relative_p as grp
            f1 = lambda x: float(np.array(x).reshape(-1)[0])
            T1 = lambda x: ampkit.T([x])
            mRe = float(mR[e])
            from tf_pwa.amp.core import get_relative_p2 as grp2
            qv = [f1(grp2(T1(M0), T1(mRe), T1(mf[k]))), f1(grp2(T1(M0), T1(m0R), T1(mf[k]))),
                  f1(grp(T1(mRe), T1(mf[i]), T1(mf[j]))), f1(grp(T1(m0R), T1(mf[i]), T1(mf[j])))]
            qargs = [("get_relative_p2", M0, mRe, mf[k]), ("get_relative_p2", M0, m0R, mf[k]), ("get_relative_p", mRe, mf[i], mf[j]), ("get_relative_p", m0R, mf[i], mf[j])]
            stmtQ = "(" + " /\\ ".join(real_stmt("%s %s %s %s" % ((a[0],) + tuple(Rq(x) for x in a[1:])), v, rtol=1e-11, atol=1e-14) for a, v in zip(qargs, qv)) + ")"
            cases.append(("Q_" + cid, stmtQ, RT, dict(meta, layer="breakup_momenta", impl_q=qv)))
            ctx.count("nominal_mass:" + ("inside" if qv[1] > 0 else "beyond_kinematic_limit"))
            if J and nominal_poly(J, M0, m0R, mf[k]) < 0:
                ctx.count("nominal_polynomial_negative:J=%d" % J)
            # (A) chain amplitude from the implementation's own mR, cos(theta), q's
            expr = "res_amp_core_abs %s %d %s %s %s %s %s %s %s %s (cos %s)" % (
                cexpr, J, Rq(qv[0]), Rq(qv[1]), Rq(qv[2]), Rq(qv[3]), Rq(m0R), Rq(g0R), Rq(d), Rq(mRe), Rq(float(beta[e])))
            cases.append(("A_" + cid, cplx_stmt(expr, complex(a_impl[e]), rtol=1e-9, atol=(a_atol if name in at_threshold else 0.0)), RT,
                          dict(meta, layer="chain_amplitude", impl_amp=str(complex(a_impl[e])))))
            ctx.distinct.add((tag, ci, e))
    # (D) density layer
    for e in range(nev):
        if e in skip:
            continue
        s = "Csum [%s]" % "; ".join("(%s, %s)" % (Rq(complex(pc.reshape(-1)[e]).real), Rq(complex(pc.reshape(-1)[e]).imag)) for pc in per_chain)
        cases.append(("D_%s_e%d" % (tag, e), real_stmt("Cnorm2 (%s)" % s, float(dens[e]), rtol=1e-11), RT,
                      {"layer": "density", "config": cfg, "event": {x: p4[x][e].tolist() for x in ampkit.FINALS}, "impl_density": float(dens[e]),
                       "chain_amps": [str(complex(pc.reshape(-1)[e])) for pc in per_chain]}))
    ctx.evaluations += nev * (1 + 2 * len(dg.chains))
    if info is not None:
        info.update(pars=pars, p4=p4, dens=dens, cfg=cfg)
    return cfg


PIN_M0, PIN_MF = 5.0, {"B": 0.5, "C": 0.3, "D": 1.0}


def collinear_events(direction, n=2):
    """events ON the boundary of the Dalitz region: all three momenta along one line (cos theta = +-1 for every chain)"""
    dv = np.array(direction, float)
    dv = dv / np.linalg.norm(dv)
    mB, mC, mD = PIN_MF["B"], PIN_MF["C"], PIN_MF["D"]
    out = {k: [] for k in ampkit.FINALS}
    for i in range(n):
        mbc = (mB + mC) + (PIN_M0 - mD - mB - mC) * (i + 0.5) / n
        q, p = ampkit._relp(mbc, mB, mC), ampkit._relp(PIN_M0, mbc, mD)
        s = 1 if i % 2 == 0 else -1
        eb, ec, er = math.sqrt(q * q + mB ** 2), math.sqrt(q * q + mC ** 2), math.sqrt(p * p + mbc ** 2)
        g, bg = er / mbc, p / mbc
        out["B"].append([g * eb + bg * s * q, *((g * s * q + bg * eb) * dv)])
        out["C"].append([g * ec - bg * s * q, *((-g * s * q + bg * ec) * dv)])
        out["D"].append([math.sqrt(p * p + mD ** 2), *(-p * dv)])
    return {k: np.array(v) for k, v in out.items()}


def threshold_events(n, seed):
    """B and C comoving: m_BC = m_B + m_C up to round-off (the corner of the Dalitz region where the BC break-up momentum vanishes)"""
    rs = np.random.RandomState(seed)
    dv = rs.normal(size=(n, 3))
    dv /= np.linalg.norm(dv, axis=1)[:, None]
    mB, mC, mD = PIN_MF["B"], PIN_MF["C"], PIN_MF["D"]
    p = ampkit._relp(PIN_M0, mB + mC, mD)
    v = p / (mB + mC)
    one = np.ones((n, 1))
    return {"B": np.concatenate([mB * math.sqrt(1 + v * v) * one, mB * v * dv], -1), "C": np.concatenate([mC * math.sqrt(1 + v * v) * one, mC * v * dv], -1),
            "D": np.concatenate([math.sqrt(mD ** 2 + p * p) * one, -p * dv], -1)}


def boundary_scenarios(ctx, rnd, cases):
    """pinned events on the boundary of the Dalitz region (hunt round 2):
    (1) all momenta collinear, also along (1,1,1) where Vector3.cross_unit's first fallback axis is parallel again;
    (2) m_BC at its threshold with odd J in BC: |q|^2 of the data comes out as -1e-16 by round-off for part of the events."""
    from tf_pwa.config_loader import ConfigLoader
    res = {"R_BC": {"pair": "R_BC", "J": 0, "P": 1, "mass": 2.0, "width": 0.3}, "R_BD": {"pair": "R_BD", "J": 1, "P": -1, "mass": 2.4, "width": 0.2},
           "R_CD": {"pair": "R_CD", "J": 2, "P": 1, "mass": 1.9, "width": 0.4}}
    p4 = {k: np.concatenate([collinear_events(dr, 2)[k] for dr in [(1, 1, 1), (-1, -1, -1), (1, 2, 3)]]) for k in ampkit.FINALS}
    ctx.count("boundary:collinear_events", len(p4["B"]))
    run_config(ctx, rnd, "bc", PIN_M0, PIN_MF, res, len(p4["B"]), cases, p4=p4)
    res = {"R_BC": {"pair": "R_BC", "J": 1, "P": -1, "mass": 2.0, "width": 0.3}, "R_BD": {"pair": "R_BD", "J": 2, "P": 1, "mass": 2.4, "width": 0.2},
           "R_CD": {"pair": "R_CD", "J": 3, "P": -1, "mass": 2.9, "width": 0.25}}
    cand = threshold_events(60, 3)
    config = ConfigLoader(ampkit.three_body_config(PIN_M0, PIN_MF, res))
    data = config.data.cal_angle(cand)
    q2 = ang = None
    for ck, cv in data["decay"].items():
        for dk, dv in cv.items():
            if str(dk.core) == "(B, C)" and "|q|2" in dv:
                q2 = np.array(dv["|q|2"]); ang = np.array(dv[[o for o in dk.outs][0]]["ang"]["beta"])
    assert q2 is not None
    # the data's own |q|^2 is negative by round-off (the case that was NaN) / non-negative; events whose daughter momentum in the BC frame is
    # exactly 0 have an undefined helicity angle (0/0 also in the closed form) and are not part of the property
    neg = [e for e in range(len(q2)) if q2[e] < 0 and np.isfinite(ang[e])][:2]
    pos = [e for e in range(len(q2)) if q2[e] >= 0 and np.isfinite(ang[e])][:1]
    ctx.count("boundary:threshold_events:q2_negative_by_roundoff", len(neg)); ctx.count("boundary:threshold_events:q2_nonnegative", len(pos))
    ctx.count("boundary:threshold_candidates_angle_undefined", int(np.sum(~np.isfinite(ang))))
    sel = neg + pos
    p4 = {k: cand[k][sel] for k in ampkit.FINALS}
    run_config(ctx, rnd, "bt", PIN_M0, PIN_MF, res, len(sel), cases, p4=p4, at_threshold=("R_BC",), a_atol=1e-6)


def reference_density(cfg, pars, ev):
    """plain-python closed form (used only for the replay / failing-input search)"""
    M0 = cfg["particle"]["$top"]["A"]["mass"]
    mf = {k: v["mass"] for k, v in cfg["particle"]["$finals"].items()}

    def mink(a, b):
        return a[0] * b[0] - a[1] * b[1] - a[2] * b[2] - a[3] * b[3]

    def relp(m0, m1, m2):
        me = max(m0, m1 + m2)
        return math.sqrt((me - (m1 + m2)) * (me + (m1 + m2)) * (me - (m1 - m2)) * (me + (m1 - m2))) / (2 * me)
    co = {0: [1], 1: [1, 1], 2: [1, 3, 9], 3: [1, 6, 45, 225], 4: [1, 10, 135, 1575, 11025]}
    bp = lambda L, z: np.polyval(co[L], z)
    Bp = lambda L, q, q0, d=3.0: math.sqrt(bp(L, (q0 * d) ** 2) / bp(L, (q * d) ** 2))
    tot = 0
    for item in cfg["decay"]["A"]:
        name = item[0]
        i, j = cfg["decay"][name]; k = item[1]
        J = cfg["particle"][name]["J"]
        m0R, g0R = pars[name + "_mass"], pars[name + "_width"]
        pi, pj, pk = [np.array(ev[x]) for x in (i, j, k)]
        sij = mink(pi + pj, pi + pj); mR = math.sqrt(sij); sik = mink(pi + pk, pi + pk)
        Ei = (sij + mf[i] ** 2 - mf[j] ** 2) / (2 * mR); Ek = (M0 ** 2 - sij - mf[k] ** 2) / (2 * mR)
        den = 2 * math.sqrt(max(Ei ** 2 - mf[i] ** 2, 0.0)) * math.sqrt(max(Ek ** 2 - mf[k] ** 2, 0.0))
        cth = (sik - mf[i] ** 2 - mf[k] ** 2 - 2 * Ei * Ek) / den if den > 0 else 1.0  # at the threshold of (ij) the angle is 0/0 and multiplies p^J = 0
        q, p, p0 = relp(M0, mR, mf[k]), relp(mR, mf[i], mf[j]), relp(m0R, mf[i], mf[j])
        q02 = (M0 - (m0R + mf[k])) * (M0 + (m0R + mf[k])) * (M0 - (m0R - mf[k])) * (M0 + (m0R - mf[k])) / (2 * M0) ** 2
        ratio = abs(bp(J, q02 * 9.0)) / bp(J, q * q * 9.0)  # modulus of the polynomial at the nominal momentum (Amp/Pipeline0.v Bprime_q2_abs)
        Bq = math.sqrt(ratio) if ratio > 0 else 1.0
        gam = g0R * (p / p0) ** (2 * J + 1) * (m0R / mR) * Bp(J, p, p0) ** 2
        BW = 1 / (m0R ** 2 - sij - 1j * m0R * gam)
        c = 1
        for kk in pars:
            if kk.endswith("r") and (("total_0" in kk and name in kk) or (kk.startswith("A->" + name) and "g_ls_0" in kk) or (kk.startswith(name + "->") and "g_ls_0" in kk)):
                c = c * pars[kk] * np.exp(1j * pars[kk[:-1] + "i"])
        tot += c * (-1) ** J * q ** J * Bq * p ** J * Bp(J, p, p0) * BW * np.polynomial.legendre.legval(cth, [0] * J + [1])
    return abs(tot) ** 2


def search(ctx, fails):
    """the property is an equation between implementation and closed form: evaluate both in floats"""
    from tf_pwa.config_loader import ConfigLoader
    for f in fails:
        m = f.get("input") or {}
        if "config" not in m or "event" not in m:
            continue
        try:
            cfg = m["config"]
            config = ConfigLoader(cfg)
            amp = config.get_amplitude()
            pars = m.get("params")
            if pars is None:
                continue
            amp.set_params(pars)
            ev = m["event"]
            p4 = {k: np.array([v]) for k, v in ev.items()}
            rho = float(np.array(amp(config.data.cal_angle(p4)))[0])
            ref = reference_density(cfg, pars, ev)
            if not (abs(rho - ref) <= 1e-8 * abs(ref)):
                return {"config": cfg, "params": pars, "event": ev, "impl_density": rho, "closed_form_density": ref}
        except Exception as e:
            ctx.notes.append("search: %r" % (e,))
    return None


def run(ctx):
    rnd = random.Random(ctx.seed * 1000003 + 4)
    ctx.rule = ("random final/parent masses, nominal resonance masses from just above the daughters' threshold to 0.15 beyond the kinematic limit (signed q0^2), 1-3 interfering resonances on distinct pairings with J in 0..4, random masses/widths/polar couplings; events from the "
                "library's phase-space generator; per (config, chain, event) three certified layers K/A/D; distinct = distinct (config,chain,event); quick 6 configs x 3 events incl. "
                "every J once, thorough 40 configs x 5 events; odd-J resonances whose nominal mass lies so far beyond the kinematic limit that the Blatt-Weisskopf polynomial at the nominal momentum is negative (quick 2, thorough 4 configs); "
                "pinned boundary events: all momenta collinear (along (1,1,1), (-1,-1,-1), (1,2,3)) and m_BC at its threshold with odd J (data |q|^2 negative by round-off; absolute tolerance 1e-6 on that chain's amplitude, "
                "events with an exactly vanishing daughter momentum in the BC frame excluded: helicity angle 0/0); a non-finite density is a failure of its own (layer finite); plus 2 (4) configs evaluated AFTER a model with the same particle names and another parent spin in the same process")
    common.theorem_stage(ctx)
    cases = []
    vcases = []
    ctx.extra_targets = ["Amp/Chain.vo"]
    quick = ctx.tier == "quick"
    plans = [([J], 1, False) for J in range(5)] + [(None, 3, False), ([1, 2], 2, True), ([3], 1, True), ([1], 1, "far"), ([3, 2], 2, "far")] if quick else \
        [([J], 1, False) for J in range(5)] * 2 + [([J, 2], 2, True) for J in range(1, 5)] + [([1], 1, "far"), ([3], 1, "far"), ([1, 0], 2, "far"), ([3, 1, 2], 3, "far")] + [(None, None, False)] * 30
    # history FIRST (before this process has evaluated any spin-0-parent model of these names): models with the SAME particle names
    # and other spins were evaluated earlier in this process (decays compare equal
    # by name, so anything cached through them would leak: the LS-helicity matrix did before /repo a1f549d).  The same (l, s)
    # list with another parent spin is the critical pattern: A(1-) -> R(1-) D and A(0-) -> R(1-) D both have ls = ((1,1),).
    from tf_pwa.config_loader import ConfigLoader
    for hn, (Jres, ptop) in enumerate([(1, (1, -1)), (2, (1, -1))] if quick else [(1, (1, -1)), (2, (1, -1)), (1, (2, -1)), (3, (1, -1)), (4, (1, -1))]):
        M0, mf, res = build(rnd, [Jres], 1, False)
        try:
            c0 = ConfigLoader(ampkit.three_body_config(M0, mf, res, top=ptop))
            a0 = c0.get_amplitude()
            a0(c0.data.cal_angle(ampkit.gen_events(M0, mf, 2, rnd.randrange(10 ** 6))))  # evaluate the other-spin model first
            ctx.count("history:other_parent_spin_first")
        except Exception as e:  # the alternative spin assignment may have no allowed coupling: no history then
            ctx.count("history:alternative_not_loadable")
            ctx.notes.append("history model J_A=%s not loadable: %r" % (ptop, e))
        run_config(ctx, rnd, "h%d" % hn, M0, mf, res, 2, cases, vcases=vcases)
    for n, (Jl, nres, beyond) in enumerate(plans):
        # the single-resonance configs of every J reuse ONE slot name (R_BC): models with equal particle / decay names and
        # different spins follow each other in this process (anything cached by name would leak from one to the next)
        M0, mf, res = build(rnd, Jl, nres, beyond, pairs_forced=(["R_BC"] if (Jl is not None and len(Jl) == 1 and not beyond) else None))
        cfg = run_config(ctx, rnd, "g%d" % n, M0, mf, res, 3 if quick else 5, cases, vcases=(vcases if (n < 5 or not quick and n % 4 == 0) else None))
        if n == 0:
            ctx.sample({"config": cfg})
    boundary_scenarios(ctx, rnd, cases)
    for c in cases[:: max(1, len(cases) // 4)]:
        ctx.sample({"case": c[0], "goal": c[1][:500]})
    res = common.coq_cases(ctx, "c04", HEADER, [c[:3] for c in cases], per_file=6, case_timeout=60)
    import amplayers
    res.update(common.coq_cases(ctx, "c04v", amplayers.HEADER, [c[:3] for c in vcases], per_file=6, case_timeout=90))
    cases = cases + vcases
    for cid, stmt, tac, meta in cases:
        if res[cid] != "OK":
            ctx.fail(meta["layer"], cid, "implementation differs from the closed form at layer %s (%s)" % (meta["layer"], res[cid]), inp=meta,
                     site="amplitude:" + meta["layer"], fingerprint=meta["layer"])
    return common.finish(ctx, search=search, technique=TECHNIQUE, extra_assumptions=[
        "the closed form is tied to the code directly (layers K/Q/A/D); the generic pipeline model (Amp/Chain.v, arbitrary spins) is tied on the same models' vertices (J = 0..4), and for spin-0 externals it EQUALS the closed form by theorem C04_generic_pipeline_is_closed_form",
        "rtol 1e-9 on chain amplitudes, atol 1e-8 on cos(theta), events from the library's generator"])


def replay(rep):
    return ampkit.replay_failing_input(rep)
