"""Shared helpers for the amplitude properties (C01-C05): config builders, event generation,
capture of the implementation's layer values."""
import math

import numpy as np

FINALS = ["B", "C", "D"]
PAIRS = {"R_BC": ("B", "C", "D"), "R_BD": ("B", "D", "C"), "R_CD": ("C", "D", "B")}


def T(x):
    import tensorflow as tf
    return tf.constant(np.array(x, dtype=np.float64))


def three_body_config(M0, mf, res, top=(0, -1), fin=None, data_opts=None, extra_particle=None, decay_opts=None):
    """res: dict name -> dict(pair='R_BC'|'R_BD'|'R_CD', J, P, mass, width, [model], ...)
    several resonances may share a pair.  fin: dict final -> (J, P)."""
    fin = fin or {k: (0, -1) for k in FINALS}
    decay = {"A": []}
    particle = {"$top": {"A": {"J": top[0], "P": top[1], "mass": M0}},
                "$finals": {k: {"J": fin[k][0], "P": fin[k][1], "mass": mf[k]} for k in FINALS}}
    for name, r in res.items():
        i, j, k = PAIRS[r["pair"]]
        item = [name, k]
        if decay_opts and name in decay_opts:
            item = [name, k, decay_opts[name]]
        decay["A"].append(item)
        decay[name] = [i, j]
        particle[name] = {kk: vv for kk, vv in r.items() if kk != "pair"}
    if extra_particle:
        particle.update(extra_particle)
    data = {"dat_order": list(FINALS)}
    if data_opts:
        data.update(data_opts)
    return {"data": data, "decay": decay, "particle": particle}


def _relp(m0, m1, m2):
    return math.sqrt(max(0.0, (m0 - (m1 + m2)) * (m0 + (m1 + m2)) * (m0 - (m1 - m2)) * (m0 + (m1 - m2)))) / (2 * m0)


def _boost(p, beta):
    b2 = float(beta @ beta)
    if b2 == 0:
        return p.copy()
    g = 1.0 / math.sqrt(1.0 - b2)
    bp = float(p[1:] @ beta)
    v = p[1:] + ((g - 1.0) / b2 * bp + g * p[0]) * beta
    return np.concatenate([[g * (p[0] + bp)], v])


def gen_events(M0, mf, n, seed):
    """independent double-precision three-body generator (not LIPS-flat: m_BC uniform, isotropic angles);
    the library's own generator is the subject of C10, not used here"""
    rs = np.random.RandomState(seed % (2 ** 32))
    mB, mC, mD = mf["B"], mf["C"], mf["D"]
    out = {k: [] for k in FINALS}

    def direction():
        c = rs.uniform(-1, 1); ph = rs.uniform(-math.pi, math.pi); s = math.sqrt(1 - c * c)
        return np.array([s * math.cos(ph), s * math.sin(ph), c])
    for _ in range(n):
        m12 = rs.uniform(mB + mC + 1e-3 * (M0 - mB - mC - mD), M0 - mD - 1e-3 * (M0 - mB - mC - mD))
        q = _relp(M0, m12, mD); nq = direction()
        pR = np.concatenate([[math.sqrt(m12 ** 2 + q * q)], q * nq])
        pD = np.concatenate([[math.sqrt(mD ** 2 + q * q)], -q * nq])
        k = _relp(m12, mB, mC); nk = direction()
        pB = np.concatenate([[math.sqrt(mB ** 2 + k * k)], k * nk])
        pC = np.concatenate([[math.sqrt(mC ** 2 + k * k)], -k * nk])
        beta = pR[1:] / pR[0]
        out["B"].append(_boost(pB, beta)); out["C"].append(_boost(pC, beta)); out["D"].append(pD)
    return {k: np.array(v) for k, v in out.items()}


def random_params(amp, rnd, scale=1.0):
    pars = {}
    for k, v in amp.get_params().items():
        if k.endswith("r") and ("g_ls" in k or "total" in k):
            pars[k] = rnd.uniform(0.2, 1.5) * scale
        elif k.endswith("i") and ("g_ls" in k or "total" in k):
            pars[k] = rnd.uniform(-math.pi, math.pi)
        else:
            pars[k] = float(v)
    amp.set_params(pars)
    return pars


def chain_amps(amp, data):
    """per-chain complex amplitude tensors via set_used_chains([k]) and the full one; restores selection"""
    dg = amp.decay_group
    old = list(dg.chains_idx)
    out = []
    try:
        for k in range(len(dg.chains)):
            dg.set_used_chains([k])
            out.append(np.array(dg.get_amp(data)))
    finally:
        dg.set_used_chains(old)
    full = np.array(dg.get_amp(data))
    return out, full


def find_decay_data(data, chain, decay):
    """data["decay"] entry of `decay` inside `chain` (keys are topology-standardised objects)"""
    for ch_key, dd in data["decay"].items():
        for dec_key, v in dd.items():
            if not hasattr(dec_key, "core"):
                continue
            pass
    return None


def lorentz_transform(p4, rot=None, boost=None, parity=False):
    """apply x -> boost(rot(parity(x))) to every (n,4) array.  rot: 3x3 orthogonal matrix, boost: 3-velocity."""
    out = {}
    for k, p in p4.items():
        e = p[:, 0].copy(); v = p[:, 1:].copy()
        if parity:
            v = -v
        if rot is not None:
            v = v @ np.asarray(rot).T
        if boost is not None:
            b = np.asarray(boost, dtype=float)
            b2 = b @ b
            g = 1.0 / math.sqrt(1.0 - b2)
            bp = v @ b
            g2 = (g - 1.0) / b2 if b2 > 0 else 0.0
            v2 = v + np.outer(g2 * bp + g * e, b)
            e2 = g * (e + bp)
            e, v = e2, v2
        out[k] = np.concatenate([e[:, None], v], axis=1)
    return out


def rotation_matrix(axis, angle):
    axis = np.asarray(axis, dtype=float); axis = axis / np.linalg.norm(axis)
    K = np.array([[0, -axis[2], axis[1]], [axis[2], 0, -axis[0]], [-axis[1], axis[0], 0]])
    return np.eye(3) + math.sin(angle) * K + (1 - math.cos(angle)) * (K @ K)


# ---------------------------------------------------------------- general cascades (n-body)
def gen_tree_events(tree, masses, M0, n, seed, res_mass_range=None):
    """tree: nested tuples of final names, e.g. (("B","C"),("D","E")) or ((("B","C"),"D"),"E").
    Sequential two-body decays with uniformly drawn intermediate masses (not LIPS-flat), double precision."""
    rs = np.random.RandomState(seed % (2 ** 32))

    def leaves(t):
        return [t] if isinstance(t, str) else sum((leaves(x) for x in t), [])

    def msum(t):
        return sum(masses[x] for x in leaves(t))

    def direction():
        c = rs.uniform(-1, 1); ph = rs.uniform(-math.pi, math.pi); s = math.sqrt(1 - c * c)
        return np.array([s * math.cos(ph), s * math.sin(ph), c])

    def decay(t, m, out):
        """decay node t of mass m at rest; returns dict name -> p4 in this rest frame"""
        if isinstance(t, str):
            out[t] = np.array([m, 0.0, 0.0, 0.0])
            return
        a, b = t
        lo_a, lo_b = msum(a), msum(b)
        free = m - lo_a - lo_b
        # share the available energy
        if isinstance(a, str) and isinstance(b, str):
            ma, mb = masses[a], masses[b]
        elif isinstance(a, str):
            ma = masses[a]; mb = lo_b + rs.uniform(0.05, 0.95) * free
        elif isinstance(b, str):
            mb = masses[b]; ma = lo_a + rs.uniform(0.05, 0.95) * free
        else:
            u = sorted([rs.uniform(0.05, 0.95), rs.uniform(0.05, 0.95)])
            ma = lo_a + u[0] * free; mb = lo_b + (u[1] - u[0]) * free
        q = _relp(m, ma, mb); nq = direction()
        pa = np.concatenate([[math.sqrt(ma * ma + q * q)], q * nq]); pb = np.concatenate([[math.sqrt(mb * mb + q * q)], -q * nq])
        for sub, p, msub in ((a, pa, ma), (b, pb, mb)):
            tmp = {}
            decay(sub, msub, tmp)
            beta = p[1:] / p[0]
            for k, v in tmp.items():
                out[k] = _boost(v, beta)
    names = leaves(tree)
    res = {k: [] for k in names}
    for _ in range(n):
        out = {}
        decay(tree, M0, out)
        for k in names:
            res[k].append(out[k])
    return {k: np.array(v) for k, v in res.items()}


def four_body_config(M0, mf, spins, chains, data_opts=None):
    """mf: masses of B,C,D,E; spins: name -> (J,P) incl. 'A'; chains: list of dicts describing
    A -> X + Y topologies:  {"kind":"22","R1":(name,J,P,m,w,("B","C")),"R2":(name,J,P,m,w,("D","E"))}
                          or {"kind":"31","R":(name,J,P,m,w),"S":(name,J,P,m,w,("B","C")),"third":"D","fourth":"E"}"""
    finals = ["B", "C", "D", "E"]
    decay = {}
    particle = {"$top": {"A": {"J": spins["A"][0], "P": spins["A"][1], "mass": M0}},
                "$finals": {k: {"J": spins[k][0], "P": spins[k][1], "mass": mf[k]} for k in finals}}
    def add_decay(core, outs):
        # a particle with several decay modes: list of lists
        outs = list(outs)
        if core not in decay:
            decay[core] = outs
        else:
            cur = decay[core]
            if cur and not isinstance(cur[0], list):
                cur = [cur]
            if outs not in cur:
                cur.append(outs)
            decay[core] = cur
    decay["A"] = []
    for ch in chains:
        if ch["kind"] == "22":
            n1, J1, P1, m1, w1, d1 = ch["R1"]; n2, J2, P2, m2, w2, d2 = ch["R2"]
            if [n1, n2] not in decay["A"]:
                decay["A"].append([n1, n2])
            add_decay(n1, d1); add_decay(n2, d2)
            particle[n1] = {"J": J1, "P": P1, "mass": m1, "width": w1}; particle[n2] = {"J": J2, "P": P2, "mass": m2, "width": w2}
        else:
            nR, JR, PR, mR, wR = ch["R"]; nS, JS, PS, mS, wS, dS = ch["S"]
            if [nR, ch["fourth"]] not in decay["A"]:
                decay["A"].append([nR, ch["fourth"]])
            add_decay(nR, [nS, ch["third"]]); add_decay(nS, dS)
            particle[nR] = {"J": JR, "P": PR, "mass": mR, "width": wR}; particle[nS] = {"J": JS, "P": PS, "mass": mS, "width": wS}
    data = {"dat_order": finals}
    if data_opts:
        data.update(data_opts)
    return {"data": data, "decay": decay, "particle": particle}


def replay_failing_input(rep):
    """re-run the implementation on a stored failing input (config, params, events[, transform]) and print both sides"""
    import json
    fi = rep.get("failing_input") or {}
    print(json.dumps({k: v for k, v in rep.items() if k != "broken"}, indent=1, default=str)[:4000])
    cfg = fi.get("config") or fi.get("variant_config")
    if not cfg or "events" not in fi or "params" not in fi:
        print("(no executable failing input stored; see 'broken' entries)")
        for b in rep.get("broken", [])[:5]:
            print(" -", b.get("layer"), b.get("case"), str(b.get("detail"))[:200])
        return 0
    from tf_pwa.config_loader import ConfigLoader
    p4 = {k: np.array(v) for k, v in fi["events"].items()}
    outs = {}
    for name, c in (("config", cfg), ("base_config", fi.get("base_config"))):
        if c is None:
            continue
        config = ConfigLoader(c); amp = config.get_amplitude(); amp.set_params(fi["params"])
        outs[name] = np.array(amp(config.data.cal_angle(p4))).tolist()
        if fi.get("transform_args"):
            kw = {k: (np.array(v) if k != "parity" else v) for k, v in fi["transform_args"].items()}
            q4 = lorentz_transform(p4, **kw)
            outs[name + "@Lambda_p"] = np.array(amp(config.data.cal_angle(q4))).tolist()
    print("implementation now:", json.dumps(outs, indent=1))
    return 0
