claim("C13",
 "Coq theorems about the Gallina model of GetA2BC_LS_list: sound+complete w.r.t. the triangle/parity/C-parity rule and NoDup for ALL spins (unbounded), l_list restriction, count of couplings = number of independent helicity amplitudes for all 2j<=8 (vm_compute). The model is tied to the code by exhaustive calls of the implementation compared inside Coq.",
 "Trusted: Coq kernel+VM, the hand-written model (tied only by correspondence on the enumerated spin/parity/option grid: exhaustive 2j<=8 in thorough), Python harness. Full-rank statement of the LS->helicity map is not proved here (only the count).",
 "Coq proof + exhaustive Coq-evaluated correspondence", "DESIGN.md section 5 C13")
