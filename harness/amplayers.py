"""Vertex layers of the generic helicity amplitude (arbitrary spins): capture HelicityDecay.get_helicity_amp /
get_amp of the implementation and state them against coq/Amp/Chain.v."""
import numpy as np

from qfmt import Rq, twoj
from rcases import cplx_stmt

HEADER = ("From Coq Require Import Reals List ZArith QArith.\nFrom Interval Require Import Tactic.\n"
          "From TFV Require Import Base.RBase Base.Tie Shape.LineShapes Rot.Wigner Rot.CG Amp.Coupling Amp.Dalitz3 Amp.Chain.\nImport ListNotations.\nOpen Scope R_scope.\n")
RT = "repeat split; rcompute; rclose"


class VertexCapture:
    def __init__(self):
        import tf_pwa.amp.core as core
        self.cls = core.HelicityDecay
        self.orig_h = self.cls.get_helicity_amp
        self.orig_a = self.cls.get_amp
        self.h = []
        self.a = []

    def __enter__(self):
        cap = self

        def get_helicity_amp(dec, data, data_p, **kw):
            r = cap.orig_h(dec, data, data_p, **kw)
            cap.h.append((dec, np.array(data["|q|2"]), np.array(data["|q0|2"]), np.array(dec.get_g_ls()), np.array(r)))
            return r

        def get_amp(dec, data, data_p, **kw):
            r = cap.orig_a(dec, data, data_p, **kw)
            ang = data[dec.outs[0]]["ang"]
            cap.a.append((dec, {k: np.array(ang[k]) for k in ("alpha", "beta", "gamma")}, np.array(r)))
            return r
        self.cls.get_helicity_amp = get_helicity_amp
        self.cls.get_amp = get_amp
        return self

    def __exit__(self, *a):
        self.cls.get_helicity_amp = self.orig_h
        self.cls.get_amp = self.orig_a


def bval(x, e):
    x = np.asarray(x)
    return float(x.reshape(-1)[e] if x.size > 1 else x.reshape(-1)[0])


def vertex_cases(ctx, tag, cap, events, rnd, max_comp=4, meta0=None):
    """(H) helicity couplings and (V) vertex = H * D* for the captured decays"""
    cases = []
    meta0 = meta0 or {}
    for n, ((dec, q2, q02, g, H), (dec2, ang, A)) in enumerate(zip(cap.h, cap.a)):
        assert dec is dec2
        ja2, jb2, jc2 = twoj(dec.core.J), twoj(dec.outs[0].J), twoj(dec.outs[1].J)
        ls = [(int(l), twoj(s)) for l, s in dec.get_ls_list()]
        hb = [twoj(x) for x in dec.list_helicity_inner()[0]]; hc = [twoj(x) for x in dec.list_helicity_inner()[1]]
        la = [twoj(x) for x in dec.core.spins]
        Hs = H.reshape((-1, len(hb), len(hc)))
        As = A.reshape((-1, len(la), len(hb), len(hc)))
        d = float(getattr(dec, "d", 3.0))
        lsq = "[%s]%%Z" % "; ".join("(%d, %d)" % p for p in ls)
        gq = "[%s]" % "; ".join("(%s, %s)" % (Rq(z.real), Rq(z.imag)) for z in g.reshape(-1))
        comps = [(ib, ic) for ib in range(len(hb)) for ic in range(len(hc))]
        ctx.count("vertex:2j=(%d,%d,%d)" % (ja2, jb2, jc2))
        for e in events:
            scale = max(1e-300, float(np.abs(Hs[min(e, Hs.shape[0] - 1)]).max()))
            for (ib, ic) in rnd.sample(comps, min(max_comp, len(comps))):
                ee = min(e, Hs.shape[0] - 1)
                hv = complex(Hs[ee][ib][ic])
                expr = "H_sum %d %d %d %s %s %s %s %s (%d) (%d)" % (ja2, jb2, jc2, lsq, gq, Rq(bval(q2, e)), Rq(bval(q02, e)), Rq(d), hb[ib], hc[ic])
                cases.append(("H_%s_%d_e%d_%d%d" % (tag, n, e, ib, ic), cplx_stmt(expr, hv, rtol=0, atol=1e-10 * scale), RT,
                              dict(meta0, layer="helicity_coupling", decay=str(dec), ls=ls, helicities=(hb[ib], hc[ic]), impl=str(hv))))
                ia = rnd.randrange(len(la))
                av = complex(As[min(e, As.shape[0] - 1)][ia][ib][ic])
                expr2 = "vertex_amp %d (%s, %s) (%d) (%d) (%d) %s %s %s" % (ja2, Rq(hv.real), Rq(hv.imag), la[ia], hb[ib], hc[ic],
                                                                          Rq(bval(ang["alpha"], e)), Rq(bval(ang["beta"], e)), Rq(bval(ang["gamma"], e)))
                cases.append(("V_%s_%d_e%d_%d%d%d" % (tag, n, e, ia, ib, ic), cplx_stmt(expr2, av, rtol=0, atol=1e-10 * max(scale, abs(av))), RT,
                              dict(meta0, layer="vertex_amplitude", decay=str(dec), helicities=(la[ia], hb[ib], hc[ic]), impl=str(av))))
                ctx.distinct.add((tag, "vertex", n, e, ib, ic))
    ctx.evaluations += len(cases)
    return cases
