"""Descriptions of the seeded changes kept under /verif/seeded/<id>/ (patch.diff, demo.py, confirm.json, meta.json).
Run: /venv/bin/python harness/seeded_meta.py  -> (re)writes every meta.json and seeded/INDEX.md"""
import json, os
V = os.path.dirname(os.path.dirname(os.path.abspath(__file__)))
S = {}
def seed(sid, prop, what, needs, detect, note=""):
    S[sid] = dict(property=prop, what=what, needs=needs, detection=detect, note=note)

seed("C13_m1", "C13", "GetA2BC_LS_list: early exit for p_break skips the C-parity filter", "parity violating decay AND C-parity requested (ca set)",
     "caught by ./check C13 (exhaustive p_break x ca grid): 128 failing obligations, failing call reported")
seed("C13_m2", "C13", "HelicityDecay.get_ls_list: l_list-filtered list no longer cached, later queries return the unrestricted list", "l_list option AND a second query of the same decay object",
     "missed at first (single query); caught after the check compares the third query with the first (49 failures)", "check strengthened")
seed("C15_m1", "C15", "ParticleGS.__init__ order: configured c_daug2Mass/c_daug3Mass overwritten by the defaults", "GS_rho configured with non-default daughter masses",
     "missed at first (defaults only); caught after adding GS_rho with configured daughter masses", "check strengthened")
seed("C15_m2", "C15", "BWR_LS factor_gamma: f = sin(theta_i) instead of f*sin(theta_i)", "resonance with >= 3 LS couplings (two theta parameters)",
     "missed at first (BWR_LS not modelled); caught after modelling BWR_LS (Shape/LineShapes.v) and tying 1..5 couplings", "model extended")
seed("C01_m1", "C01", "cal_chain_boost: momenta of non-daughters taken from the lab frame below the top", "cascade of depth >= 3 AND a moving parent (boost)",
     "caught by ./check C01 (4-body cascade, boost): 6 failing obligations with the transform named")
seed("C01_m2", "C01", "get_swap_transpose: inverse permutation wins the dict merge", ">= 3 identical final particles WITH spin (3-cycles)",
     "missed at first (identical spin-0 pair only); caught after adding an identical spin-1 triple under all permutations", "check strengthened")
seed("C03_m1", "C03", "set_used_res: break after the first chain containing a resonance", "a resonance that occurs in more than one chain (cascade / 4-body)",
     "missed at first (3-body only); caught after adding a 4-body cascade config with shared resonances (subset and fit-fraction layers)", "check strengthened")
seed("C03_m2", "C03", "FitFractions: restore of the chain selection moved from per-batch to once per integral", "method='new' (accumulator path) AND >= 2 batches",
     "missed at first (method='old' only); caught after tying method='new' at several batch sizes", "check strengthened")
seed("C03_m3", "C03", "AbsPDF.__call__: no_id_cached skips the not_full guard and reuses the full-model graph", "use_tf_function AND no_id_cached AND a sub-selection through amp(data)",
     "missed at first; caught after tying fit fractions on a graph-compiled model without id cache", "check strengthened")
seed("C05_m1", "C05", "tensor_einsum_reduce_sum: transpose with the inverse permutation", "a cyclic reorder of >= 3 axes",
     "caught by ./check C05 (generated expressions): 3 failing obligations, failing expression reported")
seed("C05_m2", "C05", "CachedAmpPreProcessor no longer merges the extras (charge_conjugation)", "cached_amp preprocessor AND cp_trans: False AND charge -1 events AND a 4-body parity-violating cascade",
     "missed at first; caught after adding the charge-conjugation 4-body configuration to the strategy matrix", "check strengthened")
seed("C12_m1", "C12", "SU2M.get_euler_angle wraps alpha, gamma into (-pi,pi]", "SU(2) product on the second sheet AND a half-integer-spin comparison",
     "caught by ./check C12 (rotation-boost-rotation products, spin-1/2 reconstruction): 4 failing obligations")
seed("C12_m2", "C12", "cached sympy CG helper drops the M argument", "a tuple with M != m1+m2",
     "missed at first (only M = m1+m2 enumerated); caught after adding off-diagonal-M tuples (exact value 0)", "check strengthened")

seed("C04_m1", "C04", "Bprime_q2: falls back to 1 whenever q0^2 <= 0 (instead of when the polynomial ratio is <= 0)", "resonance with J >= 1 whose nominal mass lies beyond the kinematic limit of the Dalitz plot",
     "missed at first (generator kept nominal masses inside the range, model used a clamped q0); caught after modelling the signed q0^2 continuation and forcing beyond-limit configurations (6 failures)", "model + generator extended")
seed("C04_m2", "C04", "running-width L taken from an lru_cache keyed by decay NAME", "two models in one process with the same particle names and different resonance spin",
     "caught by ./check C04 (several configs per process re-use the names R_BC/R_BD/R_CD with different J): 15 failures")
seed("C09_m1", "C09", "trans_error_matrix uses |dy/dx|", "an upper-only bound (dy/dx < 0) AND a correlated parameter AND an observer of off-diagonal covariance",
     "caught by ./check C09 (trans_error_matrix goals incl. upper bounds): 18 failures")
seed("C09_m2", "C09", "FitFractions.init_res_table no longer resets the gradient of the total integral", "method='new' AND the same FitFractions object integrated a second time",
     "missed at first; caught after adding a re-integration scenario (11 failures)", "check strengthened")
seed("C08_m1", "C08", "standard_complex treats the head of a tie group as unconstrained", "radius-tied complex couplings with independent phases AND a fit ending with the shared radius negative",
     "missed at first; caught after adding the constraint set 'tied_neg' (16 failures: min_nll != NLL(state))", "check strengthened")
seed("C08_m2", "C08", "fit_minuit_v2 drops a limit whose only finite end is 0", "iminuit AND a one-sided range ending exactly at 0 that is active",
     "missed at first; caught after adding the constraint set 'bound0' (phase range (-inf,0] with the data at +1.1): 2 failures", "check strengthened")
seed("C10_m1", "C10", "mass_importances: running lower edge stops updating after step 1", ">= 5 bodies; only the distribution changes",
     "caught by ./check C10 (weight layer vs model, n up to 6): 6 failures")
seed("C10_m2", "C10", "get_mass_range index slip", "cal_max_weight AND n >= 4 AND a heavy third-from-last daughter",
     "caught by ./check C10 (mass-range layer): 5 failures")
seed("C11_m1", "C11", "cal_chain_boost: lab-frame momenta used below the top", "fully sequential 5-body cascade (4 levels) with the parent at rest",
     "caught by ./check C11 (backward layers on 3-5 body topologies): 32 failures")
seed("C11_m2", "C11", "create_rotate_p_decay: 'old axes' snapshot taken before the mother's axes are loaded", "a second daughter (or a back-tracked branch) whose own daughter decays again",
     "caught by ./check C11 (forward layers): 194 failures")
seed("C07_m1", "C07", "Model_cfit.nll_grad_hessian drops resolution_size", "model cfit AND resolution_size > 1 AND the Hessian entry point",
     "missed (resolution_size > 1 was outside the check's scenarios); scenarios being added", "gap: see DESIGN section 12")
seed("C07_m2", "C07", "grad_hessp_batch: second-order normalisation term written with -int_g^2 instead of int_h", "extended likelihood AND the Hessian-vector entry point",
     "caught by ./check C07 (H.p layer for the extended model): 5 failures")

if __name__ == "__main__":
    lines = ["# Seeded changes (confirmed in a scratch worktree: demo passes clean, fails with the change, pinned tests unchanged)", "",
             "| id | property | change | needs | detection |", "|---|---|---|---|---|"]
    for sid, m in sorted(S.items()):
        d = os.path.join(V, "seeded", sid)
        if not os.path.isdir(d):
            continue
        conf = json.load(open(os.path.join(d, "confirm.json"))) if os.path.exists(os.path.join(d, "confirm.json")) else {}
        meta = dict(m, confirmed=conf, ran=["harness/confirm_seed.sh (demo on clean tree, demo with change, pinned test suite with change)",
                                            "harness/mut_test.sh %s seeded/%s/patch.diff (check against a scratch worktree with the change applied)" % (m["property"], sid)])
        json.dump(meta, open(os.path.join(d, "meta.json"), "w"), indent=1)
        lines.append("| %s | %s | %s | %s | %s |" % (sid, m["property"], m["what"], m["needs"], m["detection"]))
    open(os.path.join(V, "seeded", "INDEX.md"), "w").write("\n".join(lines) + "\n")
    print(len(S), "entries")
