"""Descriptions of the seeded changes kept under /verif/seeded/<id>/ (patch.diff, demo.py, confirm.json, meta.json).
Run: /venv/bin/python harness/seeded_meta.py  -> (re)writes every meta.json and seeded/INDEX.md"""
import json, os
V = os.path.dirname(os.path.dirname(os.path.abspath(__file__)))
S = {}
def seed(sid, prop, what, needs, detect, note=""):
    S[sid] = dict(property=prop, what=what, needs=needs, detection=detect, note=note)

seed("C13_m1", "C13", "GetA2BC_LS_list: early exit for p_break skips the C-parity filter", "parity violating decay AND C-parity requested (ca set)",
     "caught by ./check C13 (exhaustive p_break x ca grid): 128 failing obligations, failing call reported")
seed("C13_m2", "C13", "HelicityDecay.get_ls_list: l_list-filtered list no longer cached, later queries return the unrestricted list", "l_list option AND a second query of the same decay object",
     "missed at first (single query); caught after the check compares the third query with the first (49 failures)", "check strengthened")
seed("C15_m1", "C15", "ParticleGS.__init__ order: configured c_daug2Mass/c_daug3Mass overwritten by the defaults", "GS_rho configured with non-default daughter masses",
     "missed at first (defaults only); caught after adding GS_rho with configured daughter masses", "check strengthened")
seed("C15_m2", "C15", "BWR_LS factor_gamma: f = sin(theta_i) instead of f*sin(theta_i)", "resonance with >= 3 LS couplings (two theta parameters)",
     "missed at first (BWR_LS not modelled); caught after modelling BWR_LS (Shape/LineShapes.v) and tying 1..5 couplings", "model extended")
seed("C01_m1", "C01", "cal_chain_boost: momenta of non-daughters taken from the lab frame below the top", "cascade of depth >= 3 AND a moving parent (boost)",
     "caught by ./check C01 (4-body cascade, boost): 6 failing obligations with the transform named")
seed("C01_m2", "C01", "get_swap_transpose: inverse permutation wins the dict merge", ">= 3 identical final particles WITH spin (3-cycles)",
     "missed at first (identical spin-0 pair only); caught after adding an identical spin-1 triple under all permutations", "check strengthened")
seed("C03_m1", "C03", "set_used_res: break after the first chain containing a resonance", "a resonance that occurs in more than one chain (cascade / 4-body)",
     "missed at first (3-body only); caught after adding a 4-body cascade config with shared resonances (subset and fit-fraction layers)", "check strengthened")
seed("C03_m2", "C03", "FitFractions: restore of the chain selection moved from per-batch to once per integral", "method='new' (accumulator path) AND >= 2 batches",
     "missed at first (method='old' only); caught after tying method='new' at several batch sizes", "check strengthened")
seed("C03_m3", "C03", "AbsPDF.__call__: no_id_cached skips the not_full guard and reuses the full-model graph", "use_tf_function AND no_id_cached AND a sub-selection through amp(data)",
     "missed at first; caught after tying fit fractions on a graph-compiled model without id cache", "check strengthened")
seed("C05_m1", "C05", "tensor_einsum_reduce_sum: transpose with the inverse permutation", "a cyclic reorder of >= 3 axes",
     "caught by ./check C05 (generated expressions): 3 failing obligations, failing expression reported")
seed("C05_m2", "C05", "CachedAmpPreProcessor no longer merges the extras (charge_conjugation)", "cached_amp preprocessor AND cp_trans: False AND charge -1 events AND a 4-body parity-violating cascade",
     "missed at first; caught after adding the charge-conjugation 4-body configuration to the strategy matrix", "check strengthened")
seed("C12_m1", "C12", "SU2M.get_euler_angle wraps alpha, gamma into (-pi,pi]", "SU(2) product on the second sheet AND a half-integer-spin comparison",
     "caught by ./check C12 (rotation-boost-rotation products, spin-1/2 reconstruction): 4 failing obligations")
seed("C12_m2", "C12", "cached sympy CG helper drops the M argument", "a tuple with M != m1+m2",
     "missed at first (only M = m1+m2 enumerated); caught after adding off-diagonal-M tuples (exact value 0)", "check strengthened")

seed("C04_m1", "C04", "Bprime_q2: falls back to 1 whenever q0^2 <= 0 (instead of when the polynomial ratio is <= 0)", "resonance with J >= 1 whose nominal mass lies beyond the kinematic limit of the Dalitz plot",
     "missed at first (generator kept nominal masses inside the range, model used a clamped q0); caught after modelling the signed q0^2 continuation and forcing beyond-limit configurations (6 failures)", "model + generator extended")
seed("C04_m2", "C04", "running-width L taken from an lru_cache keyed by decay NAME", "two models in one process with the same particle names and different resonance spin",
     "caught by ./check C04 (several configs per process re-use the names R_BC/R_BD/R_CD with different J): 15 failures")
seed("C09_m1", "C09", "trans_error_matrix uses |dy/dx|", "an upper-only bound (dy/dx < 0) AND a correlated parameter AND an observer of off-diagonal covariance",
     "caught by ./check C09 (trans_error_matrix goals incl. upper bounds): 18 failures")
seed("C09_m2", "C09", "FitFractions.init_res_table no longer resets the gradient of the total integral", "method='new' AND the same FitFractions object integrated a second time",
     "missed at first; caught after adding a re-integration scenario (11 failures)", "check strengthened")
seed("C08_m1", "C08", "standard_complex treats the head of a tie group as unconstrained", "radius-tied complex couplings with independent phases AND a fit ending with the shared radius negative",
     "missed at first; caught after adding the constraint set 'tied_neg' (16 failures: min_nll != NLL(state))", "check strengthened")
seed("C08_m2", "C08", "fit_minuit_v2 drops a limit whose only finite end is 0", "iminuit AND a one-sided range ending exactly at 0 that is active",
     "missed at first; caught after adding the constraint set 'bound0' (phase range (-inf,0] with the data at +1.1): 2 failures", "check strengthened")
seed("C10_m1", "C10", "mass_importances: running lower edge stops updating after step 1", ">= 5 bodies; only the distribution changes",
     "caught by ./check C10 (weight layer vs model, n up to 6): 6 failures")
seed("C10_m2", "C10", "get_mass_range index slip", "cal_max_weight AND n >= 4 AND a heavy third-from-last daughter",
     "caught by ./check C10 (mass-range layer): 5 failures")
seed("C11_m1", "C11", "cal_chain_boost: lab-frame momenta used below the top", "fully sequential 5-body cascade (4 levels) with the parent at rest",
     "caught by ./check C11 (backward layers on 3-5 body topologies): 32 failures")
seed("C11_m2", "C11", "create_rotate_p_decay: 'old axes' snapshot taken before the mother's axes are loaded", "a second daughter (or a back-tracked branch) whose own daughter decays again",
     "caught by ./check C11 (forward layers): 194 failures")
seed("C07_m1", "C07", "Model_cfit.nll_grad_hessian drops resolution_size", "model cfit AND resolution_size > 1 AND the Hessian entry point",
     "missed at first (resolution_size > 1 was outside the scenarios); caught after modelling resolution_size (C06 theorems C06_nll_res_*) and adding R in {2,3} scenarios: 16 failures", "model + scenarios extended")
seed("C07_m2", "C07", "grad_hessp_batch: second-order normalisation term written with -int_g^2 instead of int_h", "extended likelihood AND the Hessian-vector entry point",
     "caught by ./check C07 (H.p layer for the extended model): 5 failures")

seed("C14_m1", "C14", "DecayChain.topology_id cached per object ignoring the 'identical' argument", "both identical modes queried on the same chain object (first call wins)",
     "caught by ./check C14 (the check queries both modes; the run stops at the first inconsistent answer, reported without a model-level witness)")
seed("C14_m2", "C14", "topology_id: canonical form sorted by length only", "two topologies whose sorted particle sets tie in length (>= 4 bodies)",
     "caught by ./check C14 (topology_same / chains map vs model on 4..6 body chains): 23 failures")
seed("C16_m1", "C16", "VarsManager.set_same: membership tested against the merged list", "set_same over names that already belong to another group / non-head link",
     "caught by ./check C16 (operation sequences with overlapping set_same): 45 failures")
seed("C16_m2", "C16", "refresh_vars / std_polar: trainability of the imaginary part read from the real part", "complex variable with the real part fixed and the imaginary part free (or the reverse)",
     "caught by ./check C16 (mixed fixed/free components): 2 failures")
seed("C19_m1", "C19", "Decay.get_ls_list: result shared through a module-level cache keyed without the C parity", "c_break: False AND two decays with the same (J,P) combination and different C",
     "missed at first (such pairs were rare in the generator); caught after adding the C-parity family (every 5th config: candidates of one slot share J^P and differ in C): 4 failures", "generator strengthened")
seed("C19_m2", "C19", "alias keys do not override an explicitly given full key", "a particle given in an included file AND overridden in the main file through an alias key",
     "caught by ./check C19 (include + alias override family): 8 failures")
seed("C18_m1", "C18", "LazyCall on-disk cache file name no longer contains the batch size", "cached_lazy_call (HeavyCall with a cache directory) AND the same directory used with two batch sizes",
     "missed at first (no on-disk cache in the scenarios); caught after adding disk-cached HeavyCall objects visited with several batch sizes by two objects: 24 failures", "check strengthened")
seed("C18_m2", "C18", "cached-data file: weight_scale applied again when the file is read back", "data: cached_data AND weight_scale: True AND a second ConfigLoader reading the file",
     "missed at first (cached-data round trip only on a synthetic dict); caught after adding the ConfigLoader scenario direct load == writing run == reading run under bg_weight / weight_scale / weight files: 4 failures", "check strengthened")
seed("C17_m1", "C17", "temp_total_gls_one: old flag read after earlier objects were already set", "a Decay object shared by several chains (cascade) with >= 2 LS couplings",
     "missed at first (3-body models have no shared decay); caught after adding the 4-body cascade model C: 44 failures", "check strengthened")
seed("C17_m2", "C17", "set_used_chains returns early (without copying) when the selection is unchanged", "an already restricted model AND a temporary selection naming exactly the active chains plus an index",
     "missed at first; caught after adding restricted histories with mixed name+index selections: 70 failures", "check strengthened")
seed("C20_m1", "C20", "multi_sampling: thinning after a late bound increase loses the kept events' bookkeeping", "a weight above the running bound found in a late batch",
     "caught by ./check C20 (scripted weight spikes): 12 failures")
seed("C20_m2", "C20", "Hist1D.histogram: emptiness of a bin judged from the weighted count", "a bin whose weights cancel exactly (signal minus sideband)",
     "missed at first; caught after adding the 'cancel' weight family: 4 failures", "generator strengthened")
seed("C02_m1", "C02", "SU2M.get_euler_angle: alpha, gamma taken from products (loses the double cover)", "half-integer final-state spin AND alignment rotation beyond 2 pi sheet",
     "caught by ./check C02: 28 failures")
seed("C02_m2", "C02", "cal_angle_from_momentum_id_swap: random_z not forwarded to the exchanged copy", "identical_particles declared AND random_z: False AND a moving parent",
     "missed at first (no declared-identical configuration in the regular stream); caught after adding the identical-vector configuration: 10 failures", "check strengthened")
seed("C06_m1", "C06", "cfit: background normalisation integral cached on the (lru_cached) model object", "cfit AND one ConfigLoader serving a second get_fcn(all_data) with another phase-space sample AND non-constant bg_value",
     "missed at first (one sample per ConfigLoader); caught after adding the second-sample phase (same ConfigLoader, other events / weights / bg_value): 14 failures", "check strengthened")
seed("C06_m2", "C06", "GaussianConstr.get_constrain_term skips non-trainable variables", "gauss_constr on a variable that is fixed when the NLL is evaluated (likelihood scan)",
     "missed at first (constrained parameters always free); caught after adding the fixed-parameter phase (set_fix at mean +- k sigma, FCN and CombineFCN): 22 failures", "check strengthened")

# ---- second round (fresh sub-agents, /repo HEAD of 2026-10-01) ----
seed("C12_s1", "C12", "small_d_matrix: weight table cached per spin in the dtype of the FIRST call", "a float32 evaluation of a spin earlier in the process, then float64 evaluations (2j >= 2)",
     "missed at first (float64 only); caught after adding the history 'first use of every spin in single precision': 60 failures", "check strengthened")
seed("C12_s2", "C12", "SU2M.get_euler_angle: acos argument clipped to +-(1 - 1e-10)", "an SU(2) element with beta within 1.4e-5 of 0 or pi (identity, z rotations, boost^-1 Rz boost, Ry(pi) Rz)",
     "caught (20 failures) by the check extended with end-point rotations in the same round; the earlier version, which had only generic rotations, was not run against it", "check strengthened")
seed("C08_s1", "C08", "ConfigLoader: a particle with float: g only puts the WIDTH (instead of the mass) on the list skipped by set_params(file)", "float: [g] without m AND the fit moves the width AND save -> fresh ConfigLoader -> set_params",
     "missed at first (no float-g-only resonance); caught after adding one to the bounds set: 16 failures", "check strengthened")
seed("C08_s2", "C08", "standard_complex: phase-only ties no longer count as constraints", "only the PHASES of two couplings tied AND the head's radius negative at the end of a BFGS / L-BFGS-B fit",
     "missed at first; caught after adding the constraint set tied_phase_neg: 16 failures", "check strengthened")
seed("C15_s1", "C15", "Flatte channel momentum: branch on m > m1+m2 instead of the sign of the documented product", "a Flatte channel with unequal daughter masses evaluated below |m1 - m2|",
     "missed at first (channels with nearly equal masses); caught after adding an eta' pi like channel: 1 failure", "generator strengthened")
seed("C15_s2", "C15", "ParticleGS.__init__ order (same change as C15_m1, found independently)", "GS_rho with configured daughter masses", "caught: 3 failures")
seed("C06_s1", "C06", "cfit nll_grad_batch: background integral cached on the model object (gradient path only)", "one ConfigLoader serving a second get_fcn with another phase-space sample", "caught (second-sample phase): 6 failures")
seed("C06_s2", "C06", "CombineFCN.nll_grad calls the sub-FCN's public nll_grad: the Gaussian constraint is counted N+1 times", "simultaneous fit AND gauss_constr AND the nll_grad value", "caught: 16 failures")
seed("C20_s1", "C20", "multi_sampling: the bound is raised before the re-thinning ratio is computed (cut always true)", "a later batch raising the bound after events were accepted under the old one",
     "caught: 9 failures (event-by-event replay of multi_sampling with the captured RNG); the statistical search found no density deviation in its small sample: no-failing-input-found")
seed("C20_s2", "C20", "InterpND.build_coeffs: corner index with the opposite bit significance", "n_dim >= 2 and asymmetric node values", "caught: 32 failures")
seed("C03_s1", "C03", "cal_fitfractions: the active chain list is not reset when res=None", "a sub-selection active when the fractions of the full model are requested",
     "missed at first; caught after adding the 'selection active' history (which also exposed a genuine defect of method='new', repaired in /repo 399556f): 31 failures", "check strengthened")
seed("C03_s2", "C03", "set_used_res: break after the first chain (same as C03_m1, found independently)", "a resonance in more than one chain", "caught: 52 failures")
seed("C09_s1", "C09", "trans_error_matrix uses |dy/dx| (same as C09_m1, found independently)", "upper-only bound and an off-diagonal covariance", "caught: 18 failures")
seed("C09_s2", "C09", "FitFractions.get_frac_grad divides the cached total gradient IN PLACE", "method='new' AND a second query on the same FitFractions object",
     "missed at first (one query per object); caught after tying three successive queries: 23 failures", "check strengthened")
seed("C13_s1", "C13", "Decay.get_ls_list shared through a class-level cache keyed without the C-parity request", "two decay objects with equal J^P, p_break and different C-parity requests in one process",
     "missed at first (decay objects were only built without C); caught after adding the C-parity family on decay objects: 254 failures", "check strengthened")
seed("C13_s2", "C13", "cg_coef: integer-valued float arguments sent to the JSON table (string keys miss, KeyError swallowed, 0 returned)", "a boson decaying into two half-integer-spin particles", "caught: 20 failures (exact CG-matrix tie and rank)")
seed("C16_s1", "C16", "standard_complex: only NON-head members of a tie group count as constrained", "component tie (shared radius or phase) AND negative head radius AND standard_complex()",
     "missed at first; caught after adding the stream of component ties x negative head radius x standard_complex: 48 failures", "check strengthened")
seed("C16_s2", "C16", "refresh_vars re-randomises every variable that has a range, fixed ones included", "a fixed parameter with a range and no initial value, then refresh_vars", "caught: 30 failures")
seed("C05_s1", "C05", "tensor_einsum_reduce_sum: inverse permutation (same as C05_m1, found independently)", "a cyclic reorder of >= 3 axes", "caught: 34 failures")
seed("C05_s2", "C05", "DecayChain.get_m_dep drops the per-event charge of CP-violating chain couplings", "is_cp couplings AND charge -1 events AND a cached / factorised strategy",
     "caught (4 failures) by the is_cp scenario added in the same round; the earlier version had no is_cp configuration and was not run against it", "check strengthened")

# third round (2026-10-01, after the second hunt round; seeders worked on /repo 86e5232): one change per property; all fifteen were reported at the first attempt
seed("C04_t1", "C04", "get_relative_p2 clamps negative q^2 at 0 (nominal q0^2 of the barrier normalisation no longer continued analytically)",
     "a J >= 1 resonance whose nominal mass lies outside the phase space (below the daughters' threshold or beyond the kinematic limit)",
     "caught at the first attempt: 18 failures (layers of the far / sub-threshold plans)")
seed("C11_t1", "C11", "create_rotate_p_decay: frame of the SECOND daughter rotated by pi about y instead of x", "a decaying particle listed as outs[1] of its mother (branching, or A -> [D, R])",
     "caught at the first attempt: 96 failures (forward vertex layers and round trip)")
seed("C12_t1", "C12", "SU2M.get_euler_angle wraps alpha, gamma into (-pi,pi] (the same change as C12_m1, chosen independently on the repaired extraction)",
     "an SU(2) element on the second sheet AND a half-integer spin", "caught at the first attempt: 12 failures")
seed("C13_t1", "C13", "GetA2BC_LS_list flattened: the p_break branch appends before the C-parity test (the same change as C13_m1, chosen independently)",
     "p_break (or a missing parity) AND a C-parity request", "caught at the first attempt: 263 failures")
seed("C15_t1", "C15", "_ad_hoc effective mass: tanh argument divided by the half range instead of the documented full range", "BWR_below (or below_threshold) with the nominal mass below threshold",
     "caught at the first attempt by 1 case (the only sub-threshold BWR_below particle case of the quick tier); the quick tier now has two such cases (2 failures), the thorough tier ten", "margin widened")

seed("C02_t1", "C02", "SU2M.get_euler_angle: alpha, gamma from angle(x11*conj(x10)), angle(x11*x10) - each wrapped separately, the double-cover sign is lost",
     "a half-integer-spin final particle AND >= 2 chain topologies", "caught at the first attempt: 37 failures (alignment layer and densities of the spin-1/2 configurations)")
seed("C05_t1", "C05", "opt_int.gls_combine: outer product of the coupling vectors in the opposite order (newest factor slow instead of fast)",
     "a chain with two decays of more than one (l,s) coupling AND cached_int or cached_shape", "caught at the first attempt: 12 failures (cached_shape cells and cached_int likelihood rows of the vector configurations)")
seed("C16_t1", "C16", "refresh_vars tests the tf.Variable's trainable flag instead of membership in trainable_vars",
     "a tie with a free head and a fixed later member, then refresh_vars", "caught at the first attempt: 27 failures (history comparison and the fixed-parameter invariant)")
seed("C17_t1", "C17", "AbsPDF.temp_params snapshots with VarsManager.get's default val_in_fit=True and restores with val_in_fit=False",
     "a model with bounded parameters (bnd_dic not empty) and any temp_params block or helper built on it", "caught at the first attempt: 212 failures")

seed("C03_t1", "C03", "DecayGroup.set_used_res sets chains_idx directly, the not_full flag is no longer refreshed", "use_tf_function (or no_id_cached) AND fit fractions (a second evaluation on the same data object after set_used_res)",
     "caught at the first attempt: 31 failures (fit-fraction sum rule and subset tensors of the use_tf_function scenarios)")
seed("C09_t1", "C09", "trans_error_matrix as einsum 'i,ij,i->ij' (index typo): V_y[i,j] = y'_i^2 V_x[i,j]", "a bounded parameter AND non-zero correlations",
     "caught at the first attempt: 52 failures (J V J^T tie and fraction errors)")
seed("C14_t1", "C14", "DecayGroup.topology_structure default identical=False -> True", "identical-particle names AND chains differing by a swap of such particles",
     "caught at the first attempt: 106 failures (class partition and chains_map of the identical-name groups)")
seed("C18_t1", "C18", "load_dat_file: one concatenate + reshape for all files instead of the per-file loop", "momenta spread over several files AND more than one event",
     "caught at the first attempt: 4 failures (multi-file layouts; the failing layout is named in the case, no shrunk input)")
seed("C20_t1", "C20", "Hist1D.histogram takes the empty-bin mask from the weighted count", "a bin whose weights cancel exactly (or are all zero)",
     "caught at the first attempt: 4 failures (cancelling-weight histograms)")

seed("C07_t1", "C07", "BaseModel.nll_grad_hessian assembles the integral term like ModelCachedInt (- sw * outer of the normalised gradient), valid for the log form only",
     "extended: True AND the Hessian", "caught at the first attempt: 11 failures (Hessian entries and H.p of the extended scenarios)")

if __name__ == "__main__":
    lines = ["# Seeded changes (confirmed in a scratch worktree: demo passes clean, fails with the change, pinned tests unchanged)", "",
             "Each patch.diff is relative to the /repo HEAD at the time it was seeded (first round: d64dc15 / 69132ff, second round `_s`: a1f549d, third round `_t`: 86e5232 = final);",
             "C04_m1 was rebased onto the repaired Bprime_q2 (same change of the same statement; the original is kept as patch_original_d64dc15.diff).",
             "On the final /repo HEAD 70 of the 76 apply with `git -C /repo apply`.  Not applicable any more, because a later repair rewrote the statement",
             "they change: C03_m2 (FitFractions.append_int), C06_m1 (cfit normalisation), C12_s2 (clip of cos(beta) before acos: the extraction is",
             "2 atan2(|x10|,|x11|) since a129335), C04_m2 and C08_s1 (these two had already stopped manifesting after a1f549d / d8e81e5).  C13_s2 still applies",
             "but no longer manifests: it routed integer-valued FLOAT spins to the JSON table, whose string keys missed them - repair 9ef724b normalises",
             "the keys, so the table now returns the exact value (its demo passes with the change applied).",
             "All other seeds were re-run against the final checks and the final /repo (regression sweeps of 2026-10-01, the last one after the second",
             "hunt round for every check touched by it): every one is reported.", "",
             "| id | property | change | needs | detection |", "|---|---|---|---|---|"]
    for sid, m in sorted(S.items()):
        d = os.path.join(V, "seeded", sid)
        if not os.path.isdir(d):
            continue
        conf = json.load(open(os.path.join(d, "confirm.json"))) if os.path.exists(os.path.join(d, "confirm.json")) else {}
        meta = dict(m, confirmed=conf, ran=["harness/confirm_seed.sh (demo on clean tree, demo with change, pinned test suite with change)",
                                            "harness/mut_test.sh %s seeded/%s/patch.diff (check against a scratch worktree with the change applied)" % (m["property"], sid)])
        json.dump(meta, open(os.path.join(d, "meta.json"), "w"), indent=1)
        lines.append("| %s | %s | %s | %s | %s |" % (sid, m["property"], m["what"], m["needs"], m["detection"]))
    open(os.path.join(V, "seeded", "INDEX.md"), "w").write("\n".join(lines) + "\n")
    print(len(S), "entries")
