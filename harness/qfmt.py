"""Exact float -> Coq term printing.  Floats cross the boundary exactly
(float.hex / as_integer_ratio), never through decimal printing."""
from fractions import Fraction
import math


def frac(x) -> Fraction:
    if isinstance(x, Fraction):
        return x
    if isinstance(x, int):
        return Fraction(x)
    x = float(x)
    if not math.isfinite(x):
        raise ValueError("non-finite value cannot be exported: %r" % x)
    n, d = x.as_integer_ratio()
    return Fraction(n, d)


def Rq(x) -> str:
    """Coq real term for an exact rational."""
    f = frac(x)
    n, d = f.numerator, f.denominator
    if d == 1:
        return "(IZR (%d))" % n if n < 0 else "(IZR %d)" % n
    return "(IZR (%d) / IZR %d)" % (n, d)


def Zq(n) -> str:
    n = int(n)
    return "(%d)%%Z" % n


def Qq(x) -> str:
    f = frac(x)
    return "(%d # %d)%%Q" % (f.numerator, f.denominator)


def Rlist(xs) -> str:
    return "[" + "; ".join(Rq(x) for x in xs) + "]"


def Zlist(xs) -> str:
    return "[" + "; ".join("(%d)" % int(x) for x in xs) + "]%Z"


def Zpairs(ps) -> str:
    return "[" + "; ".join("((%d),(%d))" % (int(a), int(b)) for a, b in ps) + "]%Z"


def close_goal(model: str, impl, atol=0.0, rtol=1e-11) -> str:
    """Statement  Rabs (model - impl) <= tol  with tol an exact rational."""
    f = frac(impl)
    tol = Fraction(atol).limit_denominator(10**30) + Fraction(rtol).limit_denominator(10**30) * abs(f)
    if tol == 0:
        tol = Fraction(1, 10**300)
    return "(Rabs (%s - %s) <= %s)%%R" % (model, Rq(f), Rq(tol))


def twoj(j) -> int:
    """spin (int, float or Fraction, possibly half-integer) -> doubled integer"""
    t = round(2 * float(j))
    assert abs(2 * float(j) - t) < 1e-9, j
    return int(t)
