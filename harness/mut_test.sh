#!/bin/bash
# usage: mut_test.sh Cxx patch.diff [tier]   - runs the check against a scratch worktree with the patch applied
set -u
pid=$1; patch=$2; tier=${3:-quick}
wt=${MUT_WT:-/tmp/mut}
bd=/verif/build/mutrun_$(basename $wt)
git -C /repo worktree add -q --force $wt HEAD 2>/dev/null
git -C $wt checkout -q --detach $(git -C /repo rev-parse HEAD) 2>/dev/null
git -C $wt checkout -q -- . ; git -C $wt clean -fdq
git -C $wt apply "$patch" || { echo "PATCH DOES NOT APPLY"; exit 2; }
cd /verif
out=$(VERIF_BUILD_DIR=$bd VERIF_EVIDENCE_DIR=/verif/build/mut/evidence VERIF_REPO=$wt ./check $pid --tier $tier 2>/dev/null | grep -a "VIOLATION\|KNOWN-FINDING\|obligations=")
echo "$out"
mkdir -p /verif/build/mut; cp -f $bd/$pid/replay_0.json /verif/build/mut/${pid}_$(basename $patch .diff).replay.json 2>/dev/null
git -C $wt checkout -q -- .
