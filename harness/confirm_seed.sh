#!/bin/bash
# usage: confirm_seed.sh <property> <patch> <demo.py> <outdir> : confirm a seeded change in a scratch worktree
# (demo passes on clean tree, fails with the change, pinned test suite still has its 98 passes) and store it.
set -u
pid=$1; patch=$2; demo=$3; out=$4
wt=/tmp/mut2
git -C /repo worktree add -q --force $wt HEAD 2>/dev/null
git -C $wt checkout -q --detach $(git -C /repo rev-parse HEAD) 2>/dev/null
git -C $wt checkout -q -- . ; git -C $wt clean -fdq
mkdir -p $out
run_demo() { (cd $wt && PYTHONPATH=$wt CUDA_VISIBLE_DEVICES="" timeout 900 /venv/bin/python $demo > $out/$1.log 2>&1; echo $?); }
sed "s#/tmp/seed[0-9]*_[A-Za-z0-9]*#$wt#g" $demo > $wt/_demo.py; demo=$wt/_demo.py
clean_rc=$(run_demo demo_clean)
git -C $wt apply $patch || { echo "PATCH DOES NOT APPLY"; exit 2; }
mut_rc=$(run_demo demo_mutant)
tests=$(cd $wt && PYTHONPATH=$wt timeout 2400 /venv/bin/python -m pytest -q -p no:cacheprovider --timeout=900 --continue-on-collection-errors tf_pwa benchmarks 2>&1 | tail -1)
git -C $wt checkout -q -- . ; rm -f $wt/_demo.py
cp $patch $out/patch.diff; cp $3 $out/demo.py
echo "{\"demo_rc_clean\": $clean_rc, \"demo_rc_with_change\": $mut_rc, \"test_suite_with_change\": \"$tests\"}" > $out/confirm.json
cat $out/confirm.json
