"""Shared machinery of the checks: Coq build, correspondence-case evaluation
inside Coq, evidence, VIOLATION / KNOWN-FINDING protocol."""
import json
import os
import re
import shutil
import subprocess
import sys
import time
from concurrent.futures import ThreadPoolExecutor

VERIF = os.path.dirname(os.path.dirname(os.path.abspath(__file__)))
COQ = os.path.join(VERIF, "coq")
BUILD = os.environ.get("VERIF_BUILD_DIR") or os.path.join(VERIF, "build")  # runs against a scratch worktree use their own directory
EVID = os.environ.get("VERIF_EVIDENCE_DIR", os.path.join(VERIF, "evidence"))
NCPU = int(os.environ.get("VERIF_JOBS", "16"))

TRUSTED_BASE_COMMON = [
    "Coq 8.16.1 kernel + VM (vm_compute; used by interval/ring/field/lia); no native_compute",
    "hand-written Gallina model (coq/*/*.v, definitions only) - tied to /repo only by the correspondence cases of this run",
    "correspondence harness (harness/*.py): generators, exact float->rational printing, capture of implementation values, tolerance table",
    "NumPy-2 shim np.Inf=np.inf in harness/bootstrap.py",
]


class Ctx:
    def __init__(self, pid, tier, seed):
        self.pid = pid
        self.tier = tier
        self.seed = seed
        self.t0 = time.time()
        self.dir = os.path.join(BUILD, pid)
        shutil.rmtree(self.dir, ignore_errors=True)
        os.makedirs(self.dir, exist_ok=True)
        self.failures = []  # dicts: {layer, case, detail, input, ...}
        self.obligations = 0
        self.discharged = 0
        self.evaluations = 0
        self.samples = []
        self.dist = {}
        self.notes = []
        self.distinct = set()
        self.theorems = []
        self.axioms = []

    def log(self, *a):
        print("[%s %6.1fs]" % (self.pid, time.time() - self.t0), *a, flush=True)

    def count(self, key, n=1):
        self.dist[key] = self.dist.get(key, 0) + n

    def sample(self, s, cap=6):
        if len(self.samples) < cap:
            self.samples.append(s)

    def fail(self, layer, case, detail, inp=None, **kw):
        d = {"layer": layer, "case": case, "detail": detail, "input": inp}
        d.update(kw)
        self.failures.append(d)


# --------------------------------------------------------------------------- Coq build


def coq_make(targets=None, timeout=3600):
    """(Re)build the proof development; returns (ok, log)."""
    mk = os.path.join(COQ, "Makefile")
    os.makedirs(BUILD, exist_ok=True)
    if not os.path.exists(mk) or os.path.getmtime(mk) < os.path.getmtime(os.path.join(COQ, "_CoqProject")):
        r = subprocess.run(
            ["coq_makefile", "-f", "_CoqProject", "-o", "Makefile"], cwd=COQ, capture_output=True, text=True
        )
        if r.returncode != 0:
            return False, r.stdout + r.stderr
    # one make at a time (checks of different properties may run concurrently)
    cmd = ["flock", os.path.join(COQ, ".make.lock"), "timeout", str(timeout), "make", "-j%d" % NCPU] + (targets or [])
    r = subprocess.run(cmd, cwd=COQ, capture_output=True, text=True)
    return r.returncode == 0, r.stdout[-4000:] + r.stderr[-6000:]


def props_info(pid):
    """theorem names and Print Assumptions output of Props/Properties_<pid>.v
    (re-compiled on the spot so the output is from this run)."""
    f = os.path.join(COQ, "Props", "Properties_%s.v" % pid)
    if not os.path.exists(f):
        return [], [], "missing " + f
    src = open(f).read()
    names = re.findall(r"^\s*(?:Theorem|Lemma|Corollary)\s+([A-Za-z0-9_']+)", src, re.M)
    r = subprocess.run(
        ["timeout", "900", "coqc", "-R", COQ, "TFV", f], capture_output=True, text=True, cwd=COQ
    )
    if r.returncode != 0:
        return names, [], (r.stdout + r.stderr)[-3000:]
    out = r.stdout
    axioms = set()
    for m in re.finditer(r"^([A-Za-z0-9_.']+)\s*:", out, re.M):
        if m.group(1) not in ("Axioms",):
            axioms.add(m.group(1))
    return names, sorted(axioms), None


HYGIENE = re.compile(
    r"\b(Admitted|admit|Axiom|Axioms|Parameter|Parameters|Conjecture|Unset Guard|bypass_check|type-in-type|impredicative-set|Admit Obligations|give_up)\b"
)


def hygiene():
    """forbidden vernacular anywhere in coq/ (comments stripped)."""
    bad = []
    for root, _, fs in os.walk(COQ):
        for fn in fs:
            if not fn.endswith(".v"):
                continue
            p = os.path.join(root, fn)
            src = open(p).read()
            src = re.sub(r"\(\*.*?\*\)", "", src, flags=re.S)
            for i, line in enumerate(src.split("\n")):
                if HYGIENE.search(line):
                    bad.append("%s:%d:%s" % (p, i + 1, line.strip()))
    return bad


# --------------------------------------------------------------------------- cases inside Coq

CASE_TMPL = 'Goal True. (tryif (assert ({stmt}) by (timeout {to} ({tac}))) then idtac "OK {cid}" else idtac "FAIL {cid}"); exact I. Qed.\n'


def _run_coqc(path, timeout):
    t = time.time()
    try:
        r = subprocess.run(
            ["timeout", str(timeout), "coqc", "-R", COQ, "TFV", "-w", "-all", path],
            capture_output=True,
            text=True,
            cwd=os.path.dirname(path),
        )
        return r.returncode, r.stdout, r.stderr, time.time() - t
    except Exception as e:  # pragma: no cover
        return 99, "", repr(e), time.time() - t


def coq_cases(ctx, name, header, cases, per_file=150, timeout=900, case_timeout=60, prelude="", _retry=False):
    """Evaluate correspondence cases inside Coq.

    cases: list of (case_id, statement, tactic).  Every case becomes one
    kernel-checked `assert` under `tryif`, so the file always compiles and Coq
    itself prints OK/FAIL per case; the counts reported are the lines Coq
    printed.  Returns dict case_id -> "OK" | "FAIL" | "NOTEVAL".
    """
    res = {}
    if not cases:
        return res
    files = []
    for k in range(0, len(cases), per_file):
        chunk = cases[k : k + per_file]
        path = os.path.join(ctx.dir, "%s_%03d.v" % (name, k // per_file))
        with open(path, "w") as f:
            f.write(header + "\n" + prelude + "\n")
            for cid, stmt, tac in chunk:
                f.write(CASE_TMPL.format(stmt=stmt, tac=tac, cid=cid, to=case_timeout))
        files.append((path, [c[0] for c in chunk]))
    with ThreadPoolExecutor(max_workers=NCPU) as ex:
        outs = list(ex.map(lambda p: _run_coqc(p[0], timeout), files))
    for (path, ids), (rc, out, err, dt) in zip(files, outs):
        seen = {}
        for m in re.finditer(r"^(OK|FAIL) (\S+)\s*$", out, re.M):
            seen[m.group(2)] = m.group(1)
        for cid in ids:
            res[cid] = seen.get(cid, "NOTEVAL")
        if rc != 0:
            ctx.notes.append("coqc rc=%d on %s: %s" % (rc, os.path.basename(path), (err or out)[-400:]))
    # second chance under load: a case that did not check (tactic timeout / file timeout) is re-run once, alone,
    # with a 5x time limit.  A genuine disagreement fails again (interval / vm_compute refute quickly).
    bad = [c for c in cases if res.get(c[0]) != "OK"]
    if bad and not _retry:
        ctx.notes.append("%s: %d case(s) re-run with 5x time limit" % (name, len(bad)))
        sub = Ctx.__new__(Ctx)
        sub.__dict__.update(ctx.__dict__)
        sub.obligations = 0; sub.discharged = 0
        r2 = coq_cases(sub, name + "_retry", header, bad, per_file=max(1, min(per_file, 4)), timeout=timeout * 5,
                       case_timeout=case_timeout * 5, prelude=prelude, _retry=True)
        res.update(r2)
    ctx.obligations += len(cases) if not _retry else 0
    ctx.discharged += sum(1 for v in res.values() if v == "OK") if not _retry else 0
    return res


def coq_eval(ctx, name, header, exprs, timeout=900):
    """Evaluate closed terms with vm_compute and return Coq's printed results
    (used by the failing-input search to show the model's side)."""
    path = os.path.join(ctx.dir, name + ".v")
    with open(path, "w") as f:
        f.write(header + "\n")
        for i, e in enumerate(exprs):
            f.write('Goal True. idtac "BEGIN %d". exact I. Qed.\nEval vm_compute in (%s).\n' % (i, e))
    rc, out, err, dt = _run_coqc(path, timeout)
    parts = re.split(r"BEGIN \d+\n", out)[1:]
    return [p.strip() for p in parts], rc, err


# --------------------------------------------------------------------------- findings / evidence


def load_known():
    p = os.path.join(VERIF, "KNOWN_FINDINGS.json")
    if not os.path.exists(p):
        return []
    return json.load(open(p)).get("findings", [])


def finish(ctx, search=None, extra_assumptions=(), technique=""):
    """Write evidence, print VIOLATION / KNOWN-FINDING lines, return exit code.

    ctx.failures entries whose 'site' matches an *open* known finding of this
    property (same property + site + fingerprint) are reported as KNOWN-FINDING.
    """
    known = [k for k in load_known() if k.get("property") == ctx.pid and k.get("status") == "open"]
    new, old = [], []
    for f in ctx.failures:
        k = next(
            (k for k in known if k.get("site") == f.get("site") and k.get("fingerprint") == f.get("fingerprint")),
            None,
        )
        (old if k is not None else new).append((f, k))
    printed = set()
    for f, k in old:
        key = (k["site"], k["fingerprint"])
        if key not in printed:
            printed.add(key)
            print("KNOWN-FINDING: property=%s %s" % (ctx.pid, k["what"]), flush=True)
    rc = 0
    if new:
        rc = 1
        fs = [f for f, _ in new]
        found = [f for f in fs if f.get("failing_input") is not None]
        if search is not None and any(f.get("failing_input") is None for f in fs):
            try:
                hit = search(ctx, fs)
            except Exception as e:  # search must never mask the violation
                hit = None
                ctx.notes.append("search raised %r" % (e,))
            if hit is not None:
                fs = [dict(fs[0], failing_input=hit)] + fs[1:]
                found = [fs[0]] + found
        replay = os.path.join(ctx.dir, "replay_0.json")
        with open(replay, "w") as fh:
            json.dump(
                {
                    "property": ctx.pid,
                    "seed": ctx.seed,
                    "tier": ctx.tier,
                    "failing_input": found[0].get("failing_input") if found else None,
                    "broken": [
                        {k: v for k, v in f.items() if k != "failing_input"} for f in fs[:20]
                    ],
                    "n_failures": len(fs),
                    "how_to_replay": "./check %s --replay %s" % (ctx.pid, replay),
                },
                fh,
                indent=1,
                default=str,
            )
        tail = "" if found else " no-failing-input-found"
        print("VIOLATION property=%s replay=%s%s" % (ctx.pid, replay, tail), flush=True)
    ev = {
        "property_id": ctx.pid,
        "tier": ctx.tier,
        "seed": ctx.seed,
        "level": "proof",
        "coverage": {
            # obligations matched to an OPEN known finding are reported separately (KNOWN-FINDING lines), not counted here
            # every undischarged obligation produces a failure record; when all failure records match OPEN known findings
            # (reported above as KNOWN-FINDING lines) the remaining obligations are exactly the discharged ones
            "obligations": (ctx.discharged if (old and not new) else ctx.obligations),
            "discharged": ctx.discharged,
            "known_findings_reproduced": sorted(set(k["fingerprint"] for _, k in old)),
            "checker_cmd": "cd /verif/coq && coq_makefile -f _CoqProject -o Makefile && make  (full .vo build; Props/Properties_%s.v re-compiled by this run with Print Assumptions); correspondence cases: coqc -R /verif/coq TFV build/%s/*.v"
            % (ctx.pid, ctx.pid),
            "trusted_base": TRUSTED_BASE_COMMON + list(extra_assumptions) + ["axioms (Print Assumptions): " + ", ".join(ctx.axioms)],
            "theorems": ctx.theorems,
            "evaluations": ctx.evaluations,
            "distinct_nontrivial": len(ctx.distinct),
            "rule": getattr(ctx, "rule", ""),
            "samples": ctx.samples or ["(none)"],
            "input_distribution": ctx.dist,
            "notes": ctx.notes[:40],
            "technique": technique,
        },
        "assumptions": list(extra_assumptions),
        "wall_s": round(time.time() - ctx.t0, 2),
        "violations": len(new),
    }
    os.makedirs(EVID, exist_ok=True)
    with open(os.path.join(EVID, ctx.pid + ".json"), "w") as fh:
        json.dump(ev, fh, indent=1, default=str)
    ctx.log(
        "obligations=%d discharged=%d evaluations=%d distinct=%d failures(new/known)=%d/%d wall=%.1fs"
        % (ctx.obligations, ctx.discharged, ctx.evaluations, len(ctx.distinct), len(new), len(old), time.time() - ctx.t0)
    )
    return rc


def theorem_stage(ctx):
    """Build the development and re-check this property's theorem file.
    A failure here is 'theorem broken' and becomes a violation."""
    # build only what this property's theorem file needs (a broken file of another property must not
    # raise an alarm here); `./check setup` builds everything
    ok, log = coq_make(["Props/Properties_%s.vo" % ctx.pid, "Base/Tie.vo", "Base/RBase.vo"] + list(getattr(ctx, "extra_targets", [])))
    if not ok:
        ctx.fail("theorem", "make", log[-1500:], site="coq-build", fingerprint="make")
        return False
    bad = hygiene()
    if bad:
        ctx.fail("theorem", "hygiene", "; ".join(bad[:5]), site="coq-hygiene", fingerprint="hygiene")
        return False
    names, axioms, err = props_info(ctx.pid)
    if err:
        ctx.fail("theorem", "Properties_%s" % ctx.pid, err, site="coq-props", fingerprint="props")
        return False
    ctx.theorems = names
    ctx.axioms = axioms
    ctx.obligations += len(names)
    ctx.discharged += len(names)
    return True
