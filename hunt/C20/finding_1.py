"""C20 finding 1: InterpND.generate / InterpNDHist.generate ignore the cell volume.
intgral_step() weights every cell by its corner values only (z/2^n resp. max corner), never by
prod(dx), so on a non-uniform (still monotone) grid the sample does not follow the interpolated
density that __call__/interp_f describe."""
import sys
import numpy as np
from tf_pwa.generator.interp_nd import InterpND, InterpNDHist

bad = False
np.random.seed(1)
# 1-D: constant density 1 on [0,3], nodes at 0,1,3  -> P(x<1) = 1/3
xs = [np.array([0.0, 1.0, 3.0])]
z = np.array([1.0, 1.0, 1.0])
N = 200000
for cls in (InterpND, InterpNDHist):
    g = cls(xs, z)
    s = g.generate(N)
    f = np.mean(s[:, 0] < 1.0)
    err = np.sqrt(1 / 3 * 2 / 3 / N)
    print(f"{cls.__name__}: observed P(x<1) = {f:.4f}, expected 0.3333 (+-{err:.4f}), "
          f"g(0.5)={float(g(np.array([[0.5]]))[0]):.3f} g(2.0)={float(g(np.array([[2.0]]))[0]):.3f}")
    if abs(f - 1 / 3) > 6 * err:
        bad = True

# 2-D non-uniform grid, random node values: compare with the exact cell integrals of the
# multilinear interpolant (mean of 4 corners * area)
rng = np.random.default_rng(3)
x = np.array([0.0, 0.1, 0.5, 2.0])
y = np.array([-1.0, 0.0, 0.2, 1.0, 4.0])
zz = rng.random((4, 5)) + 0.1
g = InterpND([x, y], zz)
s = g.generate(N)
H, _, _ = np.histogram2d(s[:, 0], s[:, 1], bins=[x, y])
area = np.diff(x)[:, None] * np.diff(y)[None, :]
E = (zz[:-1, :-1] + zz[1:, :-1] + zz[:-1, 1:] + zz[1:, 1:]) / 4 * area
E = E / E.sum() * N
chi2 = np.sum((H - E) ** 2 / E)
print(f"InterpND 2-D non-uniform grid: chi2 = {chi2:.1f} for ndf = {H.size - 1} (expected ~{H.size - 1})")
if chi2 > 100:
    bad = True
sys.exit(1 if bad else 0)
