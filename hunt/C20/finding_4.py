"""C20 finding 4: AdaptiveBound pads bounds with an ABSOLUTE 1e-6 (base_bound and percentile+1e-6)
and bins are half open [lb, rb).  (a) if the data magnitude makes 1e-6 smaller than half an ulp
(float32 data >= 32, e.g. masses in MeV; float64 >= ~1.7e10) max+1e-6 == max and the largest event of
every dimension is in NO bin; (b) for data whose range is not >> 1e-6 the shifted percentiles give
strongly unequal populations."""
import sys
import numpy as np
from tf_pwa.adaptive_bins import AdaptiveBound

bad = False
rng = np.random.default_rng(0)
# (a) Dalitz variables in MeV stored as float32
base = (1000 + 3000 * rng.random((2, 5000))).astype(np.float32)
ad = AdaptiveBound(base, [[2, 2]] * 3)
mask = np.array(ad.get_bool_mask(base))
n_per_event = mask.sum(0)
print(f"(a) float32 MeV data: events in no bin = {np.sum(n_per_event == 0)} (expected 0), "
      f"sum of bin populations = {mask.sum()} (expected 5000)")
if np.sum(n_per_event == 0) > 0:
    bad = True
base64 = 1e11 * rng.random((2, 5000))
ad = AdaptiveBound(base64, [[2, 2]] * 3)
mask = np.array(ad.get_bool_mask(base64))
print(f"    float64 data ~1e11: events in no bin = {np.sum(mask.sum(0) == 0)} (expected 0)")
if np.sum(mask.sum(0) == 0) > 0:
    bad = True
# (b) small-valued data (e.g. a variable of order 1e-4)
small = 1e-4 * rng.random((2, 5000))
ad = AdaptiveBound(small, [[2, 2]] * 3)
pops = np.array(ad.get_bool_mask(small)).sum(1)
print(f"(b) data in [0,1e-4): populations min/max = {pops.min()}/{pops.max()} (expected 78/79)")
if pops.max() - pops.min() > 2:
    bad = True
sys.exit(1 if bad else 0)
