"""C20 finding 8: binning_shape_function (used by adaptive_shape) takes the bin population from
ni.shape[0]; the split data have shape (1, n_i) so this is always 1 and the 'density' is 1/width.
Whenever the adaptive populations are not equal (ties / limited-precision data) the returned shape
is not the density of the sample."""
import sys
import numpy as np
from tf_pwa.adaptive_bins import AdaptiveBound, binning_shape_function

rng = np.random.default_rng(0)
m = np.round(rng.normal(1.0, 0.02, 4000), 2)  # masses stored with 2 decimals -> ties
nb = 5
x, y = binning_shape_function(m, nb)
pops = np.array([i.shape[-1] for i in AdaptiveBound(m, nb).get_bounds_data()[1]])
width = np.diff(x)
print("bin edges                 :", np.round(x, 4))
print("true bin populations      :", pops)
print(f"density of first bin: library {y[0]:.2f}, expected n/width = {pops[0] / width[0]:.2f}")
print(f"density of last bin : library {y[-1]:.2f}, expected n/width = {pops[-1] / width[-1]:.2f}")
r_lib = y[0] / y[-1]
r_exp = (pops[0] / width[0]) / (pops[-1] / width[-1])
print(f"ratio first/last bin density: library {r_lib:.4f}, expected {r_exp:.4f}")
bad = abs(r_lib / r_exp - 1) > 1e-6 or abs(y[0] * width[0] - pops[0]) > 1e-6
sys.exit(1 if bad else 0)
