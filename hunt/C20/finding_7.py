"""C20 finding 7: scale_to() works in place on arrays that are aliased to the caller's arrays
(WeightedData keeps `weights` without a copy, Hist1D keeps `count`), so normalising one histogram
silently rescales the user's weight array and every histogram built from it afterwards."""
import sys
import numpy as np
from tf_pwa.histogram import Hist1D, WeightedData

m = np.linspace(0, 1, 100)
w = np.ones(100)
ref = WeightedData(m, weights=np.full(100, 2.0), bins=10)
h = WeightedData(m, weights=w, bins=10)
h.scale_to(ref)
h_other_var = Hist1D.histogram(m**2, weights=w, bins=10)
print(f"sum of the caller's weights after scale_to: {w.sum()} (expected 100.0)")
print(f"next histogram from the same weights: total = {h_other_var.get_count()} (expected 100.0)")
c = np.array([1.0, 2.0, 3.0])
edges = np.array([0.0, 1.0, 2.0, 3.0])
Hist1D(edges, c).scale_to(Hist1D(edges, 2 * c))
print(f"caller's count array after Hist1D.scale_to: {c} (expected [1. 2. 3.])")
bad = w.sum() != 100.0 or not np.allclose(c, [1, 2, 3])
sys.exit(1 if bad else 0)
