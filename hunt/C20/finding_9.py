"""C20 finding 9: the option cal_phsp_max=True of generate_toy / generate_toy_p / generate_phsp
(-> ChainGenerator.cal_max_weight -> PhaseSpaceGenerator.cal_max_weight) replaces the safe analytic
bound m_wtMax by the result of ONE local L-BFGS-B search started from one random point.  For
>= 5 final-state particles the search frequently stops in the flat low-weight region
(5 of 40 seeds for 5.0 -> 0.5 0.5 0.5 0.14 0.14), m_wtMax becomes far too small, weights exceed 1,
flatten_mass() accepts them all and the 'phase space' sample is no longer flat -> every toy made
from it is biased.  (In other seeds it converges to an unphysical point where get_p is non-zero
and the bound is 14 times too large: only inefficient.)"""
import sys
import numpy as np
import tensorflow as tf
from tf_pwa.angle import LorentzVector as lv
from tf_pwa.phasespace import PhaseSpaceGenerator

m0, mi = 5.0, [0.5, 0.5, 0.5, 0.14, 0.14]
N = 50000
tf.random.set_seed(14)
np.random.seed(14)
g = PhaseSpaceGenerator(m0, mi)
bound0 = float(g.m_wtMax)
g.cal_max_weight()
w = g.get_weight(g.generate_mass(100000)).numpy()
print(f"m_wtMax analytic = {bound0:.4g}, after cal_max_weight = {float(g.m_wtMax):.4g}")
print(f"max accept-reject weight = {w.max():.4g} (expected <= 1), fraction of candidates with weight > 1 = {np.mean(w > 1):.3f} (expected 0)")
p_bad = g.generate(N)
ref = PhaseSpaceGenerator(m0, mi)
p_ref = ref.generate(N)
assert p_bad[0].shape[0] == N and p_ref[0].shape[0] == N
m_bad = lv.M(p_bad[-1] + p_bad[-2]).numpy()
m_ref = lv.M(p_ref[-1] + p_ref[-2]).numpy()
bins = np.linspace(0.28, 3.5, 31)
h1, _ = np.histogram(m_bad, bins=bins)
h2, _ = np.histogram(m_ref, bins=bins)
ok = (h1 + h2) > 0
chi2 = np.sum((h1 - h2)[ok] ** 2 / (h1 + h2)[ok])
print(f"two-sample chi2 of M(last two particles), cal_max_weight vs default generator: {chi2:.1f} for {ok.sum()} bins (expected ~{ok.sum()})")
print(f"mean M: {m_bad.mean():.4f} vs {m_ref.mean():.4f}")
bad = w.max() > 1.0 or chi2 > 150
sys.exit(1 if bad else 0)
