"""C20 finding 5: applications.gen_data(amp, ..., particles=order) evaluates the amplitude on
prepare_data_from_decay(mcfile, amp.decay_group) WITHOUT passing `particles`, i.e. with the momenta
assigned in sorted(outs) order, while the events that are returned are read with `particles`.
If the dat order differs from the alphabetical one, accept-reject uses weights of mislabelled
kinematics and the toy does not follow the model."""
import sys, tempfile
import numpy as np
np.Inf = np.inf
import tensorflow as tf
import yaml
from tf_pwa.config_loader import ConfigLoader
from tf_pwa.applications import gen_data, gen_mc
from tf_pwa.data import data_index

d = "/tmp/hunt_C20/tf_pwa/tests"
tmp = tempfile.mkdtemp()
mass = {"B": 2.00698, "C": 2.01028, "D": 0.13957}


def run(order):
    np.random.seed(5)
    tf.random.set_seed(5)
    with open(f"{d}/config_toy.yml") as f:
        cfg = yaml.safe_load(f)
    cfg["data"] = {"dat_order": order}
    config = ConfigLoader(cfg)
    config.set_params(f"{d}/exp_params.json")
    mc = gen_mc(4.6, [mass[i] for i in order], 200000)
    mcfile = f"{tmp}/phsp_{''.join(order)}.dat"
    np.savetxt(mcfile, mc)
    amp = config.get_amplitude()
    n_toy = 20000
    toy = gen_data(amp, Ndata=n_toy, mcfile=mcfile, particles=config.get_dat_order())
    phsp = config.data.cal_angle(config.data.load_p4([mcfile]))
    w = amp(phsp).numpy()
    idx = config.get_data_index("mass", "R_CD")
    m_ref = data_index(phsp, idx).numpy()
    m_toy = data_index(toy, idx).numpy()
    bins = np.linspace(m_ref.min(), m_ref.max(), 21)
    H, _ = np.histogram(m_toy, bins=bins)
    E, _ = np.histogram(m_ref, bins=bins, weights=w)
    E2, _ = np.histogram(m_ref, bins=bins, weights=w**2)
    s = n_toy / w.sum()
    chi2 = np.sum((H - E * s) ** 2 / (E * s + E2 * s * s))
    print(f"dat_order {order}: {len(m_toy)} toy events, chi2(m_CD toy vs model-weighted phsp) = {chi2:.1f}, ndf 19")
    return chi2


c1 = run(["B", "C", "D"])
c2 = run(["D", "B", "C"])
print("expected: both chi2 ~ 19")
sys.exit(1 if max(c1, c2) > 80 else 0)
