"""C20 finding 3: multi_sampling estimates the acceptance bound from the batch it is
about to accept (bound = 1.01*max(weights of this batch)).  When the first batch already
delivers the requested number of events the bound is never checked against anything else,
so the sample does not follow the model density:
 (a) N=1 (batch of one event, accepted with prob 1/1.01 whatever its weight) -> pure phase space;
 (b) a nearly flat model with a rare high region: first batch of 1.22*N events usually misses it,
     bound=1.01, 99% accepted, loop ends -> region is empty in most toys.
"""
import sys
import numpy as np
import tensorflow as tf
from tf_pwa.generator.generator import multi_sampling

tf.random.set_seed(1234)


def phsp(N):
    return {"x": tf.random.uniform((N,), dtype=tf.float64)}


bad = False
# (a) density 2x on [0,1] : mean 2/3
def amp(d):
    return d["x"]


for N, reps in [(1, 4000), (2, 3000)]:
    xs = []
    for i in range(reps):
        d, _ = multi_sampling(phsp, amp, N, display=False)
        assert d["x"].shape[0] == N
        xs.append(d["x"].numpy())
    xs = np.concatenate(xs)
    mean, err = xs.mean(), xs.std() / np.sqrt(len(xs))
    pull = (mean - 2 / 3) / err
    print(f"(a) N={N}: observed mean x = {mean:.4f} +- {err:.4f}, expected 0.6667, pull {pull:.1f}")
    if abs(pull) > 6:
        bad = True

# (b) w = 1 + 1000 * [ |x-0.5|<1e-4 ]  -> P(spike) = 0.2002/1.2 = 0.1668
def amp2(d):
    return 1.0 + 1000.0 * tf.cast(tf.abs(d["x"] - 0.5) < 1e-4, tf.float64)


N = 1000
fr = []
for i in range(40):
    d, _ = multi_sampling(phsp, amp2, N, display=False)
    x = d["x"].numpy()
    assert x.shape[0] == N
    fr.append(np.mean(np.abs(x - 0.5) < 1e-4))
fr = np.array(fr)
exp = 0.2002 / 1.2002
print(f"(b) N=1000, 40 toys: mean fraction in spike = {fr.mean():.4f}, expected {exp:.4f}; "
      f"toys with zero spike events: {np.sum(fr == 0)}/40 (expected 0, P(0 events)=e^-167)")
if np.sum(fr == 0) > 0:
    bad = True
sys.exit(1 if bad else 0)
