"""C20 finding 2: LinearInterp zeroes every slope with |k| <= 1e-10 (absolute).  The sampler is
therefore not scale covariant: multiplying the node values by a small constant, or stretching the
x grid, silently turns the piecewise-linear target into a piecewise-constant one (value = left node),
and __call__, integral, solve/generate all change.  Just above the threshold the closed-form
inverse (sqrt(b^2+..)-b)/k cancels catastrophically (round trip error 4e-7 at k=2e-10)."""
import sys
import numpy as np
from tf_pwa.generator.linear_interpolation import LinearInterp

bad = False
x = np.array([0.0, 1.0, 2.0])
y = np.array([1.0, 2.0, 3.0])
ref = LinearInterp(x, y)
u = np.linspace(0.05, 0.95, 10)
for label, li, xs, ys in [
    ("y*1e-11", LinearInterp(x, y * 1e-11), 1.0, 1e-11),
    ("x*1e11", LinearInterp(x * 1e11, y), 1e11, 1.0),
]:
    val = li(np.array([0.5 * xs]))[0] / ys
    tot = li.int_all / xs / ys
    med = li.solve(np.array([0.5]))[0] / xs
    print(f"{label}: f(0.5)={val:.4f} (expected 1.5)  total integral={tot:.4f} (expected 4.0)  "
          f"median={med:.6f} (expected {ref.solve(np.array([0.5]))[0]:.6f})")
    if abs(val - 1.5) > 1e-6 or abs(tot - 4.0) > 1e-6:
        bad = True
# cancellation just above the threshold
k = 2e-10
li = LinearInterp(x, np.array([1.0, 1 + k, 1 + 2 * k]))
uu = np.linspace(0, 1, 1001)[:-1]
s = li.solve(uu)
rt = np.max(np.abs(li.integral(s) / li.int_all - uu))
print(f"slope 2e-10: max |CDF(solve(u)) - u| = {rt:.2e} (expected < 1e-12), max |solve(u)-2u| = {np.max(np.abs(s - 2 * uu)):.2e}")
if rt > 1e-7:
    bad = True
sys.exit(1 if bad else 0)
