"""C20 finding 6: Hist1D.histogram marks empty bins with error=inf and Hist1D.__add__/__sub__
propagate it in quadrature, so the sum of two histograms has error=inf in every bin where EITHER
component is empty: sum of squared weights is not conserved by addition, and chi2()/ndf()/draw_pull
silently drop those bins (pull 0)."""
import sys
import numpy as np
from tf_pwa.histogram import Hist1D

a = np.array([0.1])
b = np.array([0.8, 0.9, 0.6])
kw = dict(bins=2, range=(0, 1))
hs = Hist1D.histogram(a, **kw) + Hist1D.histogram(b, **kw)
hm = Hist1D.histogram(np.concatenate([a, b]), **kw)
print("count  of h(a)+h(b):", hs.count, " histogram of merged sample:", hm.count)
print("error  of h(a)+h(b):", hs.error, " histogram of merged sample:", hm.error)
fit = Hist1D.histogram(np.array([0.2, 0.7]), weights=np.array([3.0, 1.0]), **kw)
d1, d2 = hs - fit, hm - fit
print(f"chi2/nbins of (sum - fit) = {d1.chi2():.3f}/{d1.ndf()}   expected {d2.chi2():.3f}/{d2.ndf()}")
bad = not np.allclose(hs.error, hm.error) or d1.ndf() != d2.ndf()
sys.exit(1 if bad else 0)
