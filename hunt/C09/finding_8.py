"""
finding_8: ParamsTrans.__getitem__ (tf_pwa/params_trans.py:96-97) returns the raw
tf.Variable `vm.variables[key]` instead of `vm.read(key)`.  Inside
`with pt.mask_params({...})` (the usage shown in tf_pwa/tests/test_full.py:
"with pt.mask_params({'A->R_BC.D_g_ls_1i': 0.0}): b = pt['A->R_BC.D_g_ls_1i']")
the mask is therefore ignored: the expression is evaluated with the unmasked
value and its error still contains the contribution of the masked parameter.
(The same line is the reason why pt[name] ignores pre_trans, see finding_6.)
"""
import sys

import numpy as np
import tensorflow as tf

from tf_pwa.variable import VarsManager

vm = VarsManager(dtype=tf.float64)
vm.add_real_var("a", 1.3)
vm.add_real_var("b", -0.7)
V = np.array([[0.04, 0.01], [0.01, 0.09]])

with vm.error_trans(V) as pt:
    a = pt["a"]
    with pt.mask_params({"b": 0.0}):
        b = pt["b"]  # should be the constant 0.0 while masked
        b_ref = vm.read("b")  # what the amplitude code sees while masked
    x = a + b
    x_ref = a + b_ref
val, err = float(x), float(pt.get_error(x, keep=True))
val_ref, err_ref = float(x_ref), float(pt.get_error(x_ref, keep=True))
# a + 0 : J = (1, 0) -> sqrt(V_aa) = 0.2
print("a + b with b masked to 0, observed: %.6f +- %.6f" % (val, err))
print("expected (J = (1, 0))            : %.6f +- %.6f" % (1.3, np.sqrt(V[0, 0])))
print("same with vm.read('b')           : %.6f +- %.6f" % (val_ref, err_ref))
if abs(val - 1.3) > 1e-12 or abs(err - 0.2) > 1e-9:
    print("VIOLATION: pt[...] ignores mask_params; error is not sqrt(J V J^T) of the masked expression")
    sys.exit(1)
print("ok")
