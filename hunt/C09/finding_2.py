"""
finding_2: ParamsTrans.get_error_matrix (tf_pwa/params_trans.py:85-94) returns a
wrong covariance J V J^T when the derived quantity is a vector *tensor*
(documented second input type, `elif isinstance(vals, tf.Tensor)`).
tape.jacobian returns one (n_out,) array per variable; np.stack() puts the
variable index first -> shape (n_var, n_out), and the following
reshape((-1, n_var)) scrambles it instead of transposing it.
The list input [y0, y1] of the same two quantities (and get_error) is right.
"""
import sys

import numpy as np
import tensorflow as tf

from tf_pwa.variable import VarsManager

vm = VarsManager(dtype=tf.float64)
for n, v in [("a", 1.3), ("b", -0.7), ("c", 2.1)]:
    vm.add_real_var(n, v)
rng = np.random.RandomState(1)
A = rng.normal(size=(3, 3))
V = A @ A.T  # parameter covariance (positive definite)

with vm.error_trans(V) as pt:
    a, b, c = pt["a"], pt["b"], pt["c"]
    y0 = a * b + c
    y1 = a - b * c * c
    y = tf.stack([y0, y1])

# true Jacobian of (y0, y1) w.r.t. (a, b, c)
av, bv, cv = 1.3, -0.7, 2.1
J = np.array([[bv, av, 1.0], [1.0, -cv * cv, -2 * bv * cv]])
expected = J @ V @ J.T
cov_list = pt.get_error_matrix([y0, y1], keep=True)
cov_tensor = pt.get_error_matrix(y, keep=True)
err_tensor = pt.get_error(y, keep=True).numpy()

print("expected J V J^T:\n", expected)
print("get_error_matrix([y0, y1])  (list):\n", cov_list)
print("get_error_matrix(tf.stack([y0, y1]))  (tensor):\n", cov_tensor)
print("get_error(tensor)**2:", err_tensor**2, " expected diag:", np.diag(expected))
ok_list = np.allclose(cov_list, expected, rtol=1e-9)
ok_tensor = np.allclose(cov_tensor, expected, rtol=1e-7)
print("list input correct:", ok_list, "; tensor input correct:", ok_tensor)
if not ok_tensor:
    print("VIOLATION: covariance of a vector tensor != J V J^T")
    sys.exit(1)
print("ok")
