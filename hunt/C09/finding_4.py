"""
finding_4: err_num.cal_err (tf_pwa/err_num.py:126-132) shifts its operands
in place when they hold numpy arrays.  `value[i] += dx` mutates the array that
is shared with the caller's NumberError (and with `k`), so `value[i] = k`
restores nothing: every argument stays at x - dx for all later function
evaluations, the numeric Jacobian of the following arguments is taken at the
wrong point, and the *input* NumberError objects are changed (by -dx per call,
accumulating over calls).
"""
import sys

import numpy as np

from tf_pwa.err_num import NumberError, cal_err

a = NumberError(np.array([1.0, 2.0]), np.array([0.1, 0.2]))
b = NumberError(np.array([3.0, 4.0]), np.array([0.3, 0.1]))
a0, b0 = a.value.copy(), b.value.copy()
f = lambda x, y: x * x * y
expected = np.sqrt((2 * a0 * b0 * a.error) ** 2 + (a0 * a0 * b.error) ** 2)

r = cal_err(f, a, b)
print("error observed:", r.error)
print("error expected:", expected, "(sqrt(J V J^T), J exact)")
print("relative deviation:", r.error / expected - 1)
for _ in range(99):
    cal_err(f, a, b)
print("operand a after 100 calls:", a.value, " expected unchanged:", a0)
print("operand b after 100 calls:", b.value, " expected unchanged:", b0)

# same computation with python floats is fine (floats are immutable)
rs = cal_err(f, NumberError(1.0, 0.1), NumberError(3.0, 0.3))
print("scalar case:", rs.error, "expected", expected[0])

bad = (
    np.max(np.abs(r.error / expected - 1)) > 1e-7
    or np.max(np.abs(a.value - a0)) > 0
    or np.max(np.abs(b.value - b0)) > 0
)
if bad:
    print("VIOLATION: cal_err mutates array operands / evaluates Jacobian at a shifted point")
    sys.exit(1)
print("ok")
