"""
finding_3: VarsManager.minimize / VarsManager.minimize_error
(tf_pwa/variable.py:992-995 and 1028-1032) map the error matrix through the
bound transformation with the wrong argument.

  * minimize(): ret.x is overwritten with the *physical* values y and then
    passed to trans_error_matrix(hess_inv, xvals), which evaluates dy/dx at its
    argument as if it were the internal fit variable x.  -> V_y = y'(y) V_x y'(y)
    instead of y'(x) V_x y'(x).
  * minimize_error(): the Hessian is taken w.r.t. the tf.Variables, which
    already hold the physical values (f() does set_all(x) with
    val_in_fit=False), so inv(H) already is V_y; it is nevertheless multiplied
    by dy/dx (again evaluated at y) on both sides.

NLL below is exactly quadratic in the physical parameters, Hessian H positive
definite, so the covariance is inv(H) whatever the bound transformation.
"""
import sys

import numpy as np
import tensorflow as tf

from tf_pwa.variable import VarsManager

H = np.array([[8.0, 1.0], [1.0, 3.0]])
mu = np.array([0.6, -0.4])
expected = np.linalg.inv(H)


def run(bound):
    vm = VarsManager(dtype=tf.float64)
    vm.add_real_var("a", 0.5)
    vm.add_real_var("b", 1.0)
    if bound:
        vm.set_bound({"a": (0.0, 2.0)})

    def fcn():
        p = tf.stack([vm.variables["a"], vm.variables["b"]]) - mu
        return 0.5 * tf.reduce_sum(p * tf.linalg.matvec(tf.constant(H), p))

    ret = vm.minimize(
        fcn, method="BFGS", mini_kwargs={"options": {"gtol": 1e-10}}
    )
    v_bfgs = np.array(ret.hess_inv)
    ret.hess_inv = None  # force the exact-Hessian branch of minimize_error
    err = vm.minimize_error(fcn, ret)
    return ret.x, v_bfgs, err


bad = False
for bound in [False, True]:
    x, v_bfgs, err = run(bound)
    print("---- bound on a:", bound, " fitted (a, b) =", x)
    print("  minimize().hess_inv[a,a] observed:", v_bfgs[0, 0], " expected:", expected[0, 0])
    print("  minimize_error()        observed:", err, " expected:", np.sqrt(np.diag(expected)))
    r1 = abs(v_bfgs[0, 0] / expected[0, 0] - 1)
    r2 = abs(err[0] / np.sqrt(expected[0, 0]) - 1)
    print("  relative deviations: %.3g (BFGS matrix), %.3g (exact Hessian path)" % (r1, r2))
    if r2 > 1e-6 or r1 > 1e-3:
        bad = True
# what the library actually computed
y = 0.6
xfit = np.arcsin(2 * (y - 0.0) / 2.0 - 1)
print("dy/dx at the fit variable x = %.6f ; dy/dx evaluated at y (used) = %.6f" % (np.cos(xfit), np.cos(y)))
print("sqrt(V_aa)*cos(y) =", np.sqrt(expected[0, 0]) * np.cos(y), "(= minimize_error output)")
if bad:
    print("VIOLATION: error of a bounded parameter is not sqrt(diag(inv(H)))")
    sys.exit(1)
print("ok")
