"""
finding_6: with a `pre_trans` constraint (constrains: pre_trans: {name: {model:
linear, k: 2.0, b: 0.1}}) the reported parameter *value* is the transformed
physical value y = k*x + b (VarsManager.get/get_all_dic apply pre_trans), but
ConfigLoader.get_params_error reports sqrt(diag(inv H)) of the raw internal
variable x without the Jacobian dy/dx (config_loader.py:871 just zips
trainable_vars with the raw hesse errors; nll_grad_hessian differentiates
w.r.t. the raw tf.Variable).  The error printed next to "R_BC_mass = 4.15"
is therefore sigma_x = sigma_y/|k|.  ParamsTrans.__getitem__
(params_trans.py:96) likewise hands out the raw variable (vm.variables[key])
instead of vm.read(key), so `pt["R_BC_mass"]` is 2.03 +- 0.0035 instead of
4.15 +- 0.0069.

The likelihood and the physical parameter are identical with and without the
transformation, so the reported uncertainty must be identical.
"""
import copy
import os
import sys

import numpy as np

np.Inf = np.inf
import tensorflow as tf
import yaml

from tf_pwa import set_random_seed
from tf_pwa.applications import gen_data, gen_mc
from tf_pwa.config_loader import ConfigLoader

here = os.path.dirname(os.path.abspath(__file__))
work = os.path.join(here, "_finding_6_tmp")
os.makedirs(os.path.join(work, "toy_data"), exist_ok=True)
os.chdir(work)
set_random_seed(1)

cfg0 = yaml.safe_load(
    """
data:
  dat_order: [B, C, D]
  data: ["toy_data/data.dat"]
  phsp: ["toy_data/PHSP.dat"]
decay:
  A:
    - [R_BC, D]
    - [R_BD, C]
  R_BC: [B, C]
  R_BD: [B, D]
particle:
  $top:
    A: { J: 1, P: -1, spins: [-1, 1], mass: 4.6 }
  $finals:
    B: { J: 1, P: -1, mass: 2.00698 }
    C: { J: 1, P: -1, mass: 2.01028 }
    D: { J: 0, P: -1, mass: 0.13957 }
  R_BC: { J: 1, Par: 1, m0: 4.16, g0: 0.1 }
  R_BD: { J: 1, Par: 1, m0: 2.43, g0: 0.3 }
"""
)


def make(pre_trans, params=None):
    cfg = copy.deepcopy(cfg0)
    cfg["constrains"] = {"free_var": ["R_BC_mass"]}
    if pre_trans:
        cfg["constrains"]["pre_trans"] = {
            "R_BC_mass": {"model": "linear", "k": 2.0, "b": 0.1}
        }
    c = ConfigLoader(cfg)
    if params is not None:
        c.set_params(dict(params))
    return c


np.savetxt("toy_data/PHSP.dat", gen_mc(4.6, [2.00698, 2.01028, 0.13957], 2000))
gen = make(False)
amp = gen.get_amplitude()
rng = np.random.RandomState(7)
gen.set_params(
    {k: float(v) + rng.normal() * 0.5 for k, v in gen.get_params(True).items() if k != "R_BC_mass"}
)
gen_data(amp, Ndata=500, mcfile="toy_data/PHSP.dat", genfile="toy_data/data.dat",
         particles=gen.get_dat_order())

plain = make(False, gen.get_params())
plain.fit(print_init_nll=False)
fitted = {k: float(v) for k, v in plain.get_params().items()}
err_plain = plain.get_params_error()
h = plain.get_fcn().nll_grad_hessian(fitted)[2].numpy()
assert np.all(np.linalg.eigvalsh((h + h.T) / 2) > 0), "Hessian not positive definite"

trans = make(True, fitted)
val_trans = float(trans.get_params()["R_BC_mass"])
nll_plain = float(plain.get_fcn()({}))
nll_trans = float(trans.get_fcn()({}))
err_trans = trans.get_params_error()
with trans.params_trans() as pt:
    m = pt["R_BC_mass"] * 1.0
pt_val, pt_err = float(m), float(pt.get_error(m))

print("NLL at the fit point: plain %.10f, with pre_trans %.10f" % (nll_plain, nll_trans))
print("reported R_BC_mass value : plain %.8f, with pre_trans %.8f" % (fitted["R_BC_mass"], val_trans))
print("reported R_BC_mass error : plain %.8f (expected), with pre_trans %.8f (observed)"
      % (err_plain["R_BC_mass"], err_trans["R_BC_mass"]))
print("params_trans pt['R_BC_mass']: observed %.8f +- %.8f, expected %.8f +- %.8f"
      % (pt_val, pt_err, fitted["R_BC_mass"], err_plain["R_BC_mass"]))
ratio = err_trans["R_BC_mass"] / err_plain["R_BC_mass"]
print("ratio observed/expected = %.6f (1/k = 0.5)" % ratio)
if abs(ratio - 1) > 1e-5:
    print("VIOLATION: error of a pre_trans parameter is not the error of the reported value")
    sys.exit(1)
print("ok")
