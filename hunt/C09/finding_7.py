"""
finding_7 (low severity, unused helper): FitFractions.get_frac_diag_sum
(tf_pwa/fitfractions.py:155-165) is supposed to give the sum of the diagonal
fit *fractions* with its propagated error, but it adds up the raw integrals
cached_int[i] and their raw gradients and never divides by the total
(cached_int_total) nor applies the quotient rule that get_frac_grad() uses.
For the same object, get_frac()["sum_diag"] is the correct value/error.
"""
import os
import sys

import numpy as np

np.Inf = np.inf
import tensorflow as tf
import yaml

from tf_pwa import set_random_seed
from tf_pwa.applications import gen_mc
from tf_pwa.config_loader import ConfigLoader
from tf_pwa.fitfractions import cal_fitfractions_no_grad

here = os.path.dirname(os.path.abspath(__file__))
work = os.path.join(here, "_finding_7_tmp")
os.makedirs(os.path.join(work, "toy_data"), exist_ok=True)
os.chdir(work)
set_random_seed(1)
cfg = yaml.safe_load(
    """
data:
  dat_order: [B, C, D]
  phsp: ["toy_data/PHSP.dat"]
decay:
  A:
    - [R_BC, D]
    - [R_BD, C]
  R_BC: [B, C]
  R_BD: [B, D]
particle:
  $top:
    A: { J: 1, P: -1, spins: [-1, 1], mass: 4.6 }
  $finals:
    B: { J: 1, P: -1, mass: 2.00698 }
    C: { J: 1, P: -1, mass: 2.01028 }
    D: { J: 0, P: -1, mass: 0.13957 }
  R_BC: { J: 1, Par: 1, m0: 4.16, g0: 0.1 }
  R_BD: { J: 1, Par: 1, m0: 2.43, g0: 0.3 }
"""
)
np.savetxt("toy_data/PHSP.dat", gen_mc(4.6, [2.00698, 2.01028, 0.13957], 1500))
config = ConfigLoader(cfg)
amp = config.get_amplitude()
names = list(amp.vm.trainable_vars)
n = len(names)
rng = np.random.RandomState(11)
A = rng.normal(size=(n, n)) * 0.05
V = A @ A.T + 1e-4 * np.eye(n)  # an arbitrary positive definite covariance
config.inv_he = V
phsp = config.get_data("phsp")[0]
res = sorted(str(i) for i in amp.res)

obj = config.cal_fitfractions(mcdata=phsp, res=res, method="new")
frac, err = obj.get_frac()
sd, sd_e = obj.get_frac_diag_sum()

# independent expectation: finite differences of sum_i FF_i
p0 = {k: float(v) for k, v in amp.get_params().items()}


def sum_ff(p):
    amp.set_params(p)
    f = cal_fitfractions_no_grad(amp, phsp, res=res, batch=25000)
    amp.set_params(p0)
    return sum(f[r] for r in res)


g = []
for k in names:
    pp, pm = dict(p0), dict(p0)
    pp[k] += 1e-5
    pm[k] -= 1e-5
    g.append((sum_ff(pp) - sum_ff(pm)) / 2e-5)
g = np.array(g)
exp_val, exp_err = sum_ff(p0), float(np.sqrt(g @ V @ g))
print("sum of diagonal fit fractions, expected (finite differences): %.8f +- %.8f" % (exp_val, exp_err))
print("get_frac()['sum_diag']                                      : %.8f +- %.8f" % (frac["sum_diag"], err["sum_diag"]))
print("get_frac_diag_sum()                                         : %.8f +- %.8f" % (sd, sd_e))
print("total integral (the missing denominator)                    : %.8f" % obj.cached_int_total)
if abs(sd / exp_val - 1) > 1e-6 or abs(sd_e / exp_err - 1) > 1e-5:
    print("VIOLATION: get_frac_diag_sum is not the diagonal fraction sum +- sqrt(J V J^T)")
    sys.exit(1)
print("ok")
