"""
finding_1: applications.cal_hesse_correct (used by ConfigLoader.get_params_error(
correct_params=[...], method="correct")) uses a wrong 4-point stencil for the
diagonal second derivative: gm is built from (nll_mp - nll_mm) instead of
(nll_pm - nll_mm); nll_pm is computed and never used.

  library:  h_ii = [f(+2e) - 2 f(-e) + f(-2e)] / (3 e^2) = f'' + 2 f'/(3e) + e f'''/9 + ...
  correct:  h_ii = [f(+2e) - f(+e) - f(-e) + f(-2e)] / (3 e^2) = f'' + O(e^2)

So the "corrected" Hessian entry (and the errors sqrt(diag(H^-1))) is wrong by
O(e f''') at an exact minimum and by 2 f'/(3e) (e = 1e-3) at a fit point that
has only converged to the usual gradient tolerance.
"""
import sys

import numpy as np

np.Inf = np.inf
import tensorflow as tf

from tf_pwa.applications import cal_hesse_correct, force_pos_def
from tf_pwa.variable import VarsManager


class ToyFCN:
    """NLL(a, b) with a positive definite Hessian, exact minimum at (1, -2)."""

    def __init__(self):
        self.vm = VarsManager(dtype=tf.float64)
        self.vm.add_real_var("a", 1.0)
        self.vm.add_real_var("b", -2.0)

    def get_params(self, trainable_only=False):
        return self.vm.get_all_dic(trainable_only)

    def _set(self, x):
        self.vm.set_all(x if isinstance(x, dict) else list(x))

    def _f(self):
        a = self.vm.variables["a"] - 1.0
        b = self.vm.variables["b"] + 2.0
        return a * a + 0.5 * b * b + a * b + a * a * a + 0.3 * b * b * b

    def __call__(self, x={}):
        self._set(x)
        return float(self._f())

    def nll_grad_hessian(self, x={}):
        self._set(x)
        var = self.vm.trainable_variables
        with tf.GradientTape(persistent=True) as t0:
            with tf.GradientTape() as t1:
                y = self._f()
            g = t1.gradient(y, var)
        h = tf.stack([tf.stack(t0.gradient(gi, var, unconnected_gradients="zero")) for gi in g])
        return y, tf.stack(g), h


bad = False
for tag, point in [
    ("exact minimum", {"a": 1.0, "b": -2.0}),
    ("fit point with |grad| ~ 1e-3", {"a": 1.0005, "b": -2.0003}),
]:
    fcn = ToyFCN()
    _, g, h_exact = fcn.nll_grad_hessian(point)
    h_exact = h_exact.numpy()
    assert np.all(np.linalg.eigvalsh(h_exact) > 0)  # inside the quantifier
    h_corr = cal_hesse_correct(fcn, dict(point), ["a"])
    err_exact = np.sqrt(np.diag(np.linalg.inv(h_exact)))
    err_corr = np.sqrt(np.diag(force_pos_def(h_corr)))
    print("----", tag, " grad =", g.numpy())
    print("  d2NLL/da2   observed (cal_hesse_correct):", h_corr[0, 0])
    print("  d2NLL/da2   expected (exact)            :", h_exact[0, 0])
    print("  sigma(a,b)  observed:", err_corr)
    print("  sigma(a,b)  expected:", err_exact)
    rel = abs(h_corr[0, 0] / h_exact[0, 0] - 1)
    print("  relative error of h_aa: %.3g" % rel)
    # the correct stencil has a truncation error ~ e^2 f''''/... < 1e-6 here
    if rel > 1e-5:
        bad = True

if bad:
    print("VIOLATION: corrected Hessian diagonal is not the second derivative")
    sys.exit(1)
print("ok")
