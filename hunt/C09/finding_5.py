"""
finding_5: applications.cal_hesse_correct leaves the model parameters at a
shifted point.  The finite-difference loop calls fcn(x) with x = x0 -/+ 1e-3
and only restores the local numpy array `x`, never the VarsManager: the last
call is nll_mm = fcn(x) with x[i] - 1e-3, x[j] - 1e-3 (i = last corrected
parameter, j = last trainable parameter).  After
ConfigLoader.get_params_error(method="correct", correct_params=[...]) every
derived quantity evaluated "at the current parameters" (cal_fitfractions(),
params_trans(), save_params()) is silently taken 1e-3 away from the fit point
in two parameters, while the covariance refers to the fit point.
(On the toy model of tf_pwa/tests/config_toy.yml this moved FF(R_BC) from
0.4288130 to 0.4288326 and its error from 0.0725419 to 0.0725650.)
"""
import sys

import numpy as np

np.Inf = np.inf
import tensorflow as tf

from tf_pwa.applications import cal_hesse_correct
from tf_pwa.variable import VarsManager


class ToyFCN:
    def __init__(self):
        self.vm = VarsManager(dtype=tf.float64)
        for n, v in [("a", 1.0), ("b", -2.0), ("c", 0.5)]:
            self.vm.add_real_var(n, v)

    def get_params(self, trainable_only=False):
        return self.vm.get_all_dic(trainable_only)

    def _set(self, x):
        self.vm.set_all(x if isinstance(x, dict) else list(x))

    def _f(self):
        a = self.vm.variables["a"] - 1.0
        b = self.vm.variables["b"] + 2.0
        c = self.vm.variables["c"] - 0.5
        return a * a + 0.5 * b * b + a * b + c * c + 0.2 * a * c

    def __call__(self, x={}):
        self._set(x)
        return float(self._f())

    def nll_grad_hessian(self, x={}):
        self._set(x)
        var = self.vm.trainable_variables
        with tf.GradientTape(persistent=True) as t0:
            with tf.GradientTape() as t1:
                y = self._f()
            g = t1.gradient(y, var)
        h = tf.stack([tf.stack(t0.gradient(gi, var, unconnected_gradients="zero")) for gi in g])
        return y, tf.stack(g), h


point = {"a": 1.0, "b": -2.0, "c": 0.5}
fcn = ToyFCN()
cal_hesse_correct(fcn, dict(point), [])  # nothing to correct: no shift
after0 = {k: float(v) for k, v in fcn.get_params().items()}
cal_hesse_correct(fcn, dict(point), ["a"])
after1 = {k: float(v) for k, v in fcn.get_params().items()}
print("fit point                        :", point)
print("params after correct_params=[]   :", after0)
print("params after correct_params=['a']:", after1, " expected:", point)
shift = max(abs(after1[k] - point[k]) for k in point)
print("largest parameter shift left behind: %.3g (expected 0)" % shift)
if shift > 1e-9:
    print("VIOLATION: cal_hesse_correct does not restore the fit point")
    sys.exit(1)
print("ok")
