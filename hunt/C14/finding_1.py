"""
C14 finding 1 (borderline: particles given as plain strings).

DecayChain.from_particles is exercised in the library's own tests with plain
strings as particles (tf_pwa/tests/test_particle.py::test_depth_fisrt,
tests/test_vis.py::test_plot).  For such a decay group

    DecayGroup(DecayChain.from_particles("a", ["B", "C", "D"])).get_chains_map()

silently returns one EMPTY dict per topology class: every chain of the group is
assigned to ZERO topology classes (the property demands exactly one), and a
chain is reported to have a different topology than its own
standard_topology() although the final-state groupings coincide.

Reference: the equivalent configuration with BaseParticle objects of the same
names, and an independent count by the final-state groupings.
"""
import sys

from tf_pwa.particle import BaseParticle, DecayChain, DecayGroup


def groupings(chain):
    node = {d.core: d for d in chain}

    def rec(p):
        if p not in node:
            return [frozenset([str(p)])]
        ret = []
        tot = frozenset()
        for o in node[p].outs:
            sub = rec(o)
            ret += sub
            tot = tot | sub[-1]
        ret.append(tot)
        return ret

    return frozenset(rec(chain.top))


def class_counts(dg):
    """for every chain: in how many topology classes of get_chains_map is it"""
    maps = dg.get_chains_map()
    return [sum(1 for m in maps if c in m) for c in dg]


names = ["B", "C", "D", "E"]

# library, particles as strings (as in the library's tests)
dg_str = DecayGroup(DecayChain.from_particles("a", list(names)))
obs = class_counts(dg_str)

# equivalent configuration with particle objects
dg_obj = DecayGroup(
    DecayChain.from_particles(
        BaseParticle("a"), [BaseParticle(i) for i in names]
    )
)
ref = class_counts(dg_obj)

# independent expectation: classes = distinct grouping sets, one per chain
gs = [groupings(c) for c in dg_str]
expected = [sum(1 for g in set(gs) if g == gi) for gi in gs]

print("number of chains                 :", len(dg_str.chains))
print("classes per chain, strings       :", obs)
print("classes per chain, BaseParticle  :", ref)
print("classes per chain, expected      :", expected)

c0 = dg_str.chains[0]
same_obs = c0.topology_same(c0.standard_topology(), False)
same_exp = groupings(c0) == groupings(c0.standard_topology())
print("chain vs its standard_topology: topology_same =", same_obs,
      " groupings coincide =", same_exp)

bad = (obs != expected) or (same_obs != same_exp)
assert ref == expected
print("VIOLATION" if bad else "ok")
sys.exit(1 if bad else 0)
