"""C10 finding 3: PhaseSpaceGenerator.set_decay() (public, documented "set decay mass, calculate max
weight") APPENDS the new masses to self.m_mass and leaves sum_mass / mass_range untouched.  A generator
that is re-configured with set_decay() silently generates inside the mass window of the FIRST decay:
part of the phase space is never populated (or only unphysical proposals are made).
"""
import sys
import numpy as np
import tensorflow as tf
from tf_pwa.phasespace import PhaseSpaceGenerator

def m(ps):
    s = sum(x.numpy() for x in ps)
    return np.sqrt(np.abs(s[:, 0] ** 2 - np.sum(s[:, 1:] ** 2, -1)))

tf.random.set_seed(1)
m0, mi = 2.0, [0.1, 0.1, 0.1]
fresh = PhaseSpaceGenerator(m0, mi)
reused = PhaseSpaceGenerator(3.0, [0.5, 0.3, 1.0])
reused.set_decay(m0, mi)
a = m(fresh.generate(100000)[1:])
b = m(reused.generate(100000)[1:])
print("m_mass of re-configured generator: observed %s   expected %s" % (reused.m_mass, mi))
print("sum_mass: observed %s   expected %s" % (reused.sum_mass, sum(mi)))
print("max m(23) in 1e5 events: observed %.4f   expected %.4f (fresh generator: %.4f)" % (b.max(), m0 - mi[0], a.max()))
print("fraction of events with m(23) > 0.4: observed %.4f   expected %.4f" % ((b > 0.4).mean(), (a > 0.4).mean()))
sys.exit(1 if b.max() < 0.9 * (m0 - mi[0]) else 0)
