"""C10 finding 1: PhaseSpaceGenerator.cal_max_weight() (used by ChainGenerator.cal_max_weight,
ConfigLoader.generate_phsp_p(cal_max=True), generate_phsp(cal_max=True), generate_toy(cal_phsp_max=True))
can set m_wtMax far BELOW the true maximum weight.  Then acceptance weights exceed one and the
accepted events are not flat in phase space.

Cause: scipy L-BFGS-B is run on the unscaled function -w/wtMax_old in unscaled mass variables; its
default projected-gradient tolerance (1e-5) is met immediately at the random start point when
|dw/dM| is small (large Q value, many bodies, or masses given in MeV), so "max" = weight of a random point;
near threshold the absolute finite-difference step (1e-8) is not small against the mass window either.
"""
import sys
import numpy as np
import tensorflow as tf
from tf_pwa.phasespace import PhaseSpaceGenerator

def minv(ps):
    s = sum(ps)
    return np.sqrt(np.maximum(s[:, 0] ** 2 - np.sum(s[:, 1:] ** 2, -1), 0))

def run(m0, mi, seed, n_acc):
    tf.random.set_seed(seed)
    g = PhaseSpaceGenerator(m0, mi)
    g.cal_max_weight()
    w, p = g.generate(400000, flatten=False)
    w = w.numpy()
    p = [x.numpy() for x in p]
    acc = [x.numpy() for x in g.generate(n_acc)]
    # reference: weighted proposals (weights are proportional to the phase-space density
    # whatever the normalisation), compared with the accepted (unweighted) events
    lo, hi = mi[-1] + mi[-2], m0 - sum(mi[:-2])
    bins = np.linspace(lo, hi, 21)
    ho, _ = np.histogram(minv(acc[-2:]), bins)
    hr, _ = np.histogram(minv(p[-2:]), bins, weights=w)
    hr2, _ = np.histogram(minv(p[-2:]), bins, weights=w * w)
    sc = ho.sum() / hr.sum()
    e, var = hr * sc, hr * sc + hr2 * sc * sc
    m = e > 10
    chi2 = np.sum((ho[m] - e[m]) ** 2 / var[m])
    return w.max(), (w > 1).mean(), chi2, m.sum() - 1

bad = False
for m0, mi, seed in [
    (10.58, [0.13957] * 6, 3),                       # GeV, Upsilon(4S)-mass -> 6 pi
    (6000.0, [500.0, 100.0, 1000.0, 300.0, 2000.0, 700.0], 1),   # MeV
    (5000.0, [100.0, 1500.0, 300.0, 100.0, 1000.0], 3),          # MeV, 5 body
    (1.00001, [0.5, 0.3, 0.1, 0.1], 4),                          # near threshold, Q = 1e-5 (any seed fails)
]:
    wmax, frac, chi2, nd = run(m0, mi, seed, 20000)
    print("m0=%s mi=%s seed=%d" % (m0, mi, seed))
    print("   max acceptance weight after cal_max_weight(): observed %.4g   expected <= 1" % wmax)
    print("   fraction of proposals with weight > 1:        observed %.4g   expected 0" % frac)
    print("   flatness chi2 of m(last two) accepted vs true: observed %.1f / %d   expected ~ %d" % (chi2, nd, nd))
    if wmax > 1.0 + 1e-7:
        bad = True
sys.exit(1 if bad else 0)
