"""C10 finding 2: with two massless daughters at the end of the list, cal_max_weight() can turn
m_wtMax into NaN (or inf): L-BFGS-B evaluates the weight on the lower bound M_1 = m[-1]+m[-2] = 0,
where get_p(0, 0, 0) = 0/0.  Afterwards every weight is NaN (flatten=False returns them silently)
and generate(N) never returns (no proposal is ever accepted, endless refill loop).
"""
import signal, sys, warnings
import numpy as np
import tensorflow as tf
from tf_pwa.phasespace import PhaseSpaceGenerator, ChainGenerator

warnings.filterwarnings("ignore")

class Timeout(Exception):
    pass

def handler(sig, frm):
    raise Timeout()

bad = False
for m0, mi, seed in [(1.0, [0.2, 0.0, 0.0], 4), (5.28, [0.4937, 0.1396, 0.0, 0.0], 14), (1.0, [0.0] * 5, 5)]:
    tf.random.set_seed(seed)
    g = ChainGenerator(m0, mi)
    g.cal_max_weight()
    wtmax = float(g.gen[0].m_wtMax)
    w, _ = g.gen[0].generate(1000, flatten=False)
    w = w.numpy()
    print("m0=%s mi=%s seed=%d" % (m0, mi, seed))
    print("   m_wtMax after cal_max_weight(): observed %r   expected finite > 0" % wtmax)
    print("   weights of 1000 proposals: %d NaN, %d zero   expected 0, 0" % (np.isnan(w).sum(), (w == 0).sum()))
    signal.signal(signal.SIGALRM, handler)
    signal.alarm(30)
    try:
        p = g.generate(10)
        signal.alarm(0)
        print("   generate(10): returned %d events   expected 10" % p[0].shape[0])
    except Timeout:
        print("   generate(10): no return within 30 s (endless loop)   expected 10 events")
        bad = True
    if not np.isfinite(wtmax):
        bad = True
sys.exit(1 if bad else 0)
