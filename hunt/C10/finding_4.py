"""C10 finding 4: ConfigLoader.generate_phsp_p / generate_phsp nest a fixed-mass sub-decay whenever the
intermediate particle of the FIRST decay chain at a common node has model "one", without looking at the
other chains that share the node (tf_pwa/config_loader/sample.py build_phsp_chain, decay_group[0] only).
With a constant ("one", R(m)=1, the usual non-resonant term) particle listed before a Breit-Wigner in
the same (B,C) slot, every "phase-space" event has m(BC) equal to the nominal mass of the constant term:
the Dalitz plot is a line, not flat; listing the same two particles in the other order gives flat events.
"""
import sys
import numpy as np
np.Inf = np.inf
import tensorflow as tf
from tf_pwa.config_loader import ConfigLoader

def M(p):
    p = p.numpy()
    return np.sqrt(np.abs(p[:, 0] ** 2 - np.sum(p[:, 1:] ** 2, -1)))

fin = {k: {"J": 0, "P": 1, "mass": m} for k, m in (("B", 0.5), ("C", 0.3), ("D", 0.2))}
res = {}
for order in (["NR", "R1"], ["R1", "NR"]):
    tf.random.set_seed(1)
    cfg = {
        "data": {"dat_order": ["B", "C", "D"]},
        "decay": {"A": [[order[0], "D"], [order[1], "D"]], "NR": ["B", "C"], "R1": ["B", "C"]},
        "particle": {
            "$top": {"A": {"J": 0, "P": 1, "mass": 5.0}},
            "$finals": fin,
            "NR": {"J": 0, "P": 1, "mass": 3.0, "model": "one"},
            "R1": {"J": 0, "P": 1, "mass": 2.0, "width": 0.1},
        },
    }
    p = {str(k): v for k, v in ConfigLoader(cfg).generate_phsp_p(20000).items()}
    mbc = M(p["B"] + p["C"])
    res[tuple(order)] = mbc
    print("A -> [%s, %s] D :  m(BC) min %.4f max %.4f std %.4f" % (order[0], order[1], mbc.min(), mbc.max(), mbc.std()))
a = res[("NR", "R1")]
print("observed m(BC) spread with the constant term listed first: %.3g   expected (flat Dalitz plot, range 0.8 .. 4.8): ~%.3g"
      % (a.std(), res[("R1", "NR")].std()))
sys.exit(1 if a.std() < 1e-6 else 0)
