"""C03 finding 2: cal_fitfractions / cal_fitfractions_no_grad / fit_fractions(batch=None)
silently drop the event weights of an integration sample that is passed as a list of
batches (the calling convention used in tutorials/examples/fit_scipy_new.py:
`cal_fitfractions(model.Amp, list(split_generator(mcdata, 25000)))`).

tf_pwa/fitfractions.py:216-221 (and 283-288): `weight = 1.0` and the "weight" entry of
the data is only looked at inside `if batch is not None:`.  The same sample passed as
one dict with batch=250 gives the weighted result, so the value of the fit fractions
depends on how the sample is split.
"""
import os, sys, tempfile
import numpy as np
np.Inf = np.inf
import yaml
from tf_pwa import set_random_seed
from tf_pwa.applications import gen_mc, fit_fractions
from tf_pwa.config_loader import ConfigLoader
from tf_pwa.data import data_split
from tf_pwa.fitfractions import cal_fitfractions, cal_fitfractions_no_grad

CFG = """
data:
  dat_order: [B, C, D]
decay:
  A:
    - [R_BC, D]
    - [R_BD, C]
    - [R_CD, B]
  R_BC: [B, C]
  R_BD: [B, D]
  R_CD: [C, D]
particle:
  $top:
    A: { J: 1, P: -1, spins: [-1, 1], mass: 4.6 }
  $finals:
    B: { J: 1, P: -1, mass: 2.00698 }
    C: { J: 1, P: -1, mass: 2.01028 }
    D: { J: 0, P: -1, mass: 0.13957 }
  R_BC: { J: 1, Par: 1, m0: 4.16, g0: 0.1 }
  R_BD: { J: 1, Par: 1, m0: 2.43, g0: 0.3 }
  R_CD: { J: 1, Par: 1, m0: 2.42, g0: 0.03 }
"""
tmp = tempfile.mkdtemp()
set_random_seed(1)
phsp_file = os.path.join(tmp, "phsp.dat")
w_file = os.path.join(tmp, "phsp_w.dat")
np.savetxt(phsp_file, gen_mc(4.6, [2.00698, 2.01028, 0.13957], 600))
np.savetxt(w_file, np.random.RandomState(5).uniform(0.2, 3.0, size=600))
cfg = yaml.safe_load(CFG)
cfg["data"]["phsp"] = [phsp_file]
cfg["data"]["phsp_weight"] = [w_file]
config = ConfigLoader(cfg)
set_random_seed(3)
amp = config.get_amplitude()
phsp = config.get_data("phsp")[0]
res = ["R_BC", "R_BD", "R_CD"]

# reference: weighted integrals done by hand
w = np.asarray(phsp["weight"])
def integral(sel):
    with amp.temp_used_res(sel):
        return float(np.sum(w * amp(phsp).numpy()))
tot = integral(res)
expected = {r: integral([r]) / tot for r in res}

whole, _ = cal_fitfractions(amp, phsp, res=res, batch=250)        # dict + batch
split, _ = cal_fitfractions(amp, list(data_split(phsp, 250)), res=res)  # list of the same batches
split2 = cal_fitfractions_no_grad(amp, list(data_split(phsp, 250)), res=res)
split3, _ = fit_fractions(amp, list(data_split(phsp, 250)), batch=None, res=res)
bad = 0.0
for r in res:
    print("%s expected %.10f | dict,batch=250: %.10f | list of batches: %.10f | no_grad list: %.10f | fit_fractions list: %.10f"
          % (r, expected[r], whole[r], split[r], split2[r], split3[r]))
    bad = max(bad, abs(split[r] - expected[r]), abs(split2[r] - expected[r]), abs(split3[r] - expected[r]))
    assert abs(whole[r] - expected[r]) < 1e-12
print("observed max deviation of the list-of-batches result from the weighted fit fraction: %.3e (expected 0)" % bad)
if bad > 1e-7:
    print("VIOLATION: weights of a pre-split integration sample are ignored")
    sys.exit(1)
print("no violation")
