"""C03 finding 1: fit fractions depend on the batch split when a final-state (or top)
particle has no `mass` in the configuration.

HelicityDecay._get_particle_mass (tf_pwa/amp/core.py:810-818) stores
    p.mass = tf.reduce_mean(data[p]["m"])
of the FIRST batch that is ever evaluated on the particle object and re-uses that
number (in |q0|, barrier factors, running widths) for every later batch / sample.
If the integration sample has a spread in that mass, the value depends on which
events happen to be in the first batch -> FF(batch=N) != FF(batch=N/2).
"""
import os, sys, tempfile
import numpy as np
np.Inf = np.inf
import yaml
from tf_pwa import set_random_seed
from tf_pwa.applications import gen_mc
from tf_pwa.config_loader import ConfigLoader

CFG = """
data:
  dat_order: [B, C, D]
decay:
  A:
    - [R_BC, D]
    - [R_BD, C]
    - [R_CD, B]
  R_BC: [B, C]
  R_BD: [B, D]
  R_CD: [C, D]
particle:
  $top:
    A: { J: 1, P: -1, spins: [-1, 1], mass: 4.6 }
  $finals:
    B: { J: 1, P: -1, mass: 2.00698 }
    C: { J: 1, P: -1, mass: 2.01028 }
    D: { J: 0, P: -1 }                 # <- no mass given
  R_BC: { J: 1, Par: 1, m0: 4.16, g0: 0.1 }
  R_BD: { J: 1, Par: 1, m0: 2.43, g0: 0.3 }
  R_CD: { J: 1, Par: 1, m0: 2.42, g0: 0.03 }
"""

tmp = tempfile.mkdtemp()
set_random_seed(11)
# integration sample: D reconstructed under two mass hypotheses (first/second half)
a = gen_mc(4.6, [2.00698, 2.01028, 0.13957], 300)
b = gen_mc(4.6, [2.00698, 2.01028, 0.30], 300)
phsp_file = os.path.join(tmp, "phsp.dat")
np.savetxt(phsp_file, np.concatenate([a, b]))


def fit_frac(batch, mass_D=None):
    cfg = yaml.safe_load(CFG)
    cfg["data"]["phsp"] = [phsp_file]
    if mass_D is not None:
        cfg["particle"]["$finals"]["D"]["mass"] = mass_D
    config = ConfigLoader(cfg)
    set_random_seed(3)  # identical couplings in every model
    config.get_amplitude()
    frac, _ = config.cal_fitfractions(batch=batch)
    return {k: float(v) for k, v in frac.items()}


f_one = fit_frac(600)   # one batch
f_two = fit_frac(300)   # two batches, same events, same parameters
diff = max(abs(f_one[k] - f_two[k]) for k in f_one)
c_one = fit_frac(600, 0.2)
c_two = fit_frac(300, 0.2)
cdiff = max(abs(c_one[k] - c_two[k]) for k in c_one)
print("FF, batch=600 :", f_one)
print("FF, batch=300 :", f_two)
print("observed max |FF(batch=600) - FF(batch=300)| = %.3e   expected: 0 (<1e-12)" % diff)
print("control (mass of D given in the config): %.3e" % cdiff)
if diff > 1e-7:
    print("VIOLATION: fit fractions depend on the batch size")
    sys.exit(1)
print("no violation")
