"""C03 finding 3: the fit-fraction sum rule fails for decay groups whose chains contain
more than one intermediate resonance (cascade A->R1 D, R1->R2 C, R2->B E, or
A->R3 R4).

cal_fitfractions / FitFractions work per resonance name (default res = amp.res = every
inner particle) and DecayGroup.set_used_res([R_i, R_j]) selects the UNION of the chains
that contain R_i or R_j (tf_pwa/amp/core.py:2071-2077).  For two resonances of the same
chain I_i = I_j = I_ij = |chain|^2, so FF_ij = -FF_i, and the interference with another
chain is counted once per resonance pair instead of once per chain pair:
sum_i FF_i + sum_{i<j} FF_ij = 1 + 3 * (interference fraction) for two 2-resonance chains.
"""
import sys
import numpy as np
np.Inf = np.inf
import yaml
from tf_pwa import set_random_seed
from tf_pwa.config_loader import ConfigLoader
from tf_pwa.phasespace import PhaseSpaceGenerator

CFG = """
data:
  dat_order: [B, C, D, E]
decay:
  A:
    - [R1, D]
    - [R3, R4]
  R1: [R2, C]
  R2: [B, E]
  R3: [B, C]
  R4: [D, E]
particle:
  $top:
    A: { J: 0, P: -1, mass: 5.3 }
  $finals:
    B: { J: 0, P: -1, mass: 0.5 }
    C: { J: 0, P: -1, mass: 0.14 }
    D: { J: 0, P: -1, mass: 0.14 }
    E: { J: 0, P: -1, mass: 0.14 }
  R1: { J: 1, P: -1, mass: 2.4, width: 0.3 }
  R2: { J: 1, P: -1, mass: 0.9, width: 0.05 }
  R3: { J: 1, P: -1, mass: 0.9, width: 0.05 }
  R4: { J: 1, P: -1, mass: 0.77, width: 0.15 }
"""
config = ConfigLoader(yaml.safe_load(CFG))
set_random_seed(4)
amp = config.get_amplitude()
print("chains:", amp.decay_group.chains)
set_random_seed(4)
p4 = PhaseSpaceGenerator(5.3, [0.5, 0.14, 0.14, 0.14]).generate(500)
data = config.data.cal_angle(p4)

worst = 0.0
for method in ["old", "new"]:
    ret = config.cal_fitfractions(mcdata=data, batch=200, method=method)
    frac = ret[0] if method == "old" else ret.get_frac(sum_diag=False)[0]
    frac = {k: float(v) for k, v in frac.items()}
    total = sum(frac.values())
    print(method, frac)
    print(method, "sum of single + pairwise interference fractions: observed %.12f   expected 1" % total)
    worst = max(worst, abs(total - 1))
# per chain (res = chain indices) the sum rule does hold
frac, _ = config.cal_fitfractions(mcdata=data, batch=200, res=[0, 1])
print("control, res=[0, 1] (chain indices): sum = %.12f" % sum(float(v) for v in frac.values()))
if worst > 1e-7:
    print("VIOLATION: fit fractions + interference fractions do not add up to one")
    sys.exit(1)
print("no violation")
