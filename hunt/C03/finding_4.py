"""C03 finding 4: with identical (or CP-conjugate) final-state particles the full amplitude
is A(p) + sum_swaps (+-)A(p_swapped) (DecayGroup.get_amp2 / get_amp3,
tf_pwa/amp/core.py:1895-1941).  The amplitude models `cached_amp`, `cached_shape` and
`base_factor` (tf_pwa/amp/amp.py:215-356) rebuild the amplitude from cached pieces of the
un-swapped kinematics only and never look at data["id_swap"] / data["cp_swap"], so they
silently drop the symmetrisation terms: the value of |A|^2, and with it every fit fraction
of ConfigLoader.cal_fitfractions, differs from the default model for the same parameters
(e.g. rho -> pi pi with identical pions: 0 by Bose symmetry in the default model, 2.3e-3
in the cached models).
"""
import os, sys, tempfile
import numpy as np
np.Inf = np.inf
import yaml
from tf_pwa import set_random_seed
from tf_pwa.config_loader import ConfigLoader
from tf_pwa.phasespace import PhaseSpaceGenerator

CFG = """
data:
  dat_order: [pip, pim, jpsi]
  identical_particles: [[pip, pim]]
decay:
  epem:
    - [pipjpsi, pim]
    - [pimjpsi, pip]
    - [jpsi, pippim]
  pipjpsi: [pip, jpsi]
  pimjpsi: [pim, jpsi]
  pippim: [pip, pim]
particle:
  $top:
    epem: { J: 1, P: -1, mass: 4.6, spins: [-1, 1] }
  $finals:
    pip: { J: 0, P: -1, mass: 0.139 }
    pim: { J: 0, P: -1, mass: 0.139 }
    jpsi: { J: 1, P: -1, mass: 3.0 }
  pipjpsi: [Zcp]
  pimjpsi: [Zcm]
  pippim: [rho, f0]
  Zcp: { J: 1, P: +1, mass: 3.9, width: 0.05 }
  Zcm: { J: 1, P: +1, mass: 3.95, width: 0.08 }
  rho: { J: 1, P: -1, mass: 0.9, width: 0.15 }
  f0: { J: 0, P: +1, mass: 0.98, width: 0.1 }
"""
tmp = tempfile.mkdtemp()
set_random_seed(7)
p4 = PhaseSpaceGenerator(4.6, [0.139, 0.139, 3.0]).generate(300)
phsp_file = os.path.join(tmp, "phsp.dat")
np.savetxt(phsp_file, np.stack([np.asarray(i) for i in p4], axis=1).reshape(-1, 4))

res, params = {}, None
for pre, model in [(None, None), ("cached_amp", "cached_amp"), ("cached_shape", "cached_shape"), (None, "base_factor")]:
    cfg = yaml.safe_load(CFG)
    cfg["data"]["phsp"] = [phsp_file]
    if pre:
        cfg["data"]["preprocessor"] = pre
    if model:
        cfg["data"]["amp_model"] = model
    config = ConfigLoader(cfg)
    set_random_seed(3)
    amp = config.get_amplitude()
    if params is None:
        params = amp.get_params()
    amp.set_params(params)  # the same parameters in every model
    frac, _ = config.cal_fitfractions(batch=100)
    res[model] = {k: float(v) for k, v in frac.items()}
    print("%-13s" % (model or "default"), {k: round(v, 6) for k, v in res[model].items() if isinstance(k, str)})
worst = 0.0
for m in ["cached_amp", "cached_shape", "base_factor"]:
    d = max(abs(res[m][k] - res[None][k]) for k in res[None])
    print("%s: observed max |FF - FF(default model)| = %.3e   expected 0 (<1e-12)" % (m, d))
    worst = max(worst, d)
if worst > 1e-7:
    print("VIOLATION: cached amplitude models drop the identical-particle terms of the amplitude")
    sys.exit(1)
print("no violation")
