"""
C13 finding 4 (adjacent to the anchors: decay model `helicity_parity`,
tf_pwa/amp/base.py HelicityDecayP).

The model documents  H_{-m1,-m2} = P0 P1 P2 (-1)^{J1+J2-J0} H_{m1,m2}  and is the
helicity-basis counterpart of the parity-conserving (l,s) list.  It stores
"half" of H and mirrors it, but when the halved axis has an odd length (integer
spin) the middle row/column (lambda = 0) is stored completely and never
mirrored: H_{0,m2} and H_{0,-m2} are independent parameters and H_{0,0} is free
even for eta = -1.  The number of free couplings therefore exceeds the number
of independent (parity conserving) helicity amplitudes = number of (l,s)
couplings of the default model, and the amplitude violates parity.

expected: H[::-1, ::-1] == eta * H for every parameter value, and
(#free complex couplings + 1) == number of (l,s) couplings of the default model.
"""
import sys

import numpy as np

from tf_pwa.amp.core import get_decay, get_particle, variable_scope
from tf_pwa.variable import VarsManager


def build(jp, model):
    ja, pa, jb, pb, jc, pc = jp
    A = get_particle("A", J=ja, P=pa)
    B = get_particle("B", J=jb, P=pb)
    C = get_particle("C", J=jc, P=pc)
    d = get_decay(A, [B, C], model=model)
    vm = VarsManager()
    with variable_scope(vm):
        d.init_params()
    return d, vm


def check(jp):
    ja, pa, jb, pb, jc, pc = jp
    d, vm = build(jp, "helicity_parity")
    # deterministic parameter values
    rng = np.random.RandomState(1)
    vm.set_all({k: rng.uniform(0.5, 1.5) for k in vm.trainable_vars})
    H = np.array(d.get_helicity_amp(None, None))
    eta = pa * pb * pc * (-1) ** (jb + jc - ja)
    viol = np.abs(H[::-1, ::-1] - eta * H).max()
    n_free = len(set(k[:-1] for k in vm.trainable_vars))
    dls, _ = build(jp, "default")
    n_ls = len(dls.get_ls_list())
    print("decay {}^{} -> {}^{} {}^{}: eta = {}".format(ja, pa, jb, pb, jc, pc, eta))
    print("   H =", np.round(H, 3).tolist())
    print("   observed max|H_{-b,-c} - eta H_{b,c}| =", viol, "  expected 0")
    print("   observed free complex couplings + 1 =", n_free + 1, "  expected (number of (l,s)) =", n_ls)
    return viol > 1e-9 or n_free + 1 != n_ls


bad = 0
bad += check((1, -1, 1, -1, 0, -1))  # only (l,s)=(1,1): H_{0,0} must vanish
bad += check((1, -1, 1, -1, 1, 1))
ok_half = check((1, -1, 0.5, 1, 0.5, -1))  # half-integer daughters: fine
print("integer-spin cases wrong:", bad, " half-integer case wrong:", ok_half)
sys.exit(1 if (bad or ok_half) else 0)
