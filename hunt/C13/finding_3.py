"""
C13 finding 3 (adjacent to the anchors: helicity-basis decay models
`helicity_full`, `helicity_full-bf`, `helicity_parity` in tf_pwa/amp/base.py).

For these models the couplings are the helicity amplitudes H_{lambda_b,lambda_c}
themselves; `fix_unused_h()` is meant to pin the entries with
|lambda_b - lambda_c| > J_A to zero and the first allowed entry to 1, so that the
number of free couplings equals the number of independent helicity amplitudes
(= number of (l,s) couplings of the default model with p_break=True).

When J_B != J_C (H is not square) the multi-index given to
`Variable.set_fix_idx` is reduced modulo the REVERSED shape
(`shape_mod = [self.shape[-i - 1] ...]` in Variable._set_fix_idx,
tf_pwa/variable.py), so other entries are fixed: allowed helicity amplitudes
are pinned to 0 (physical configurations unreachable), forbidden ones stay
free (redundant fit parameters with identically vanishing effect), and the
normalisation entry is put in the wrong place.

expected: free entries == allowed entries minus the reference one; all
forbidden entries fixed at 0; every helicity matrix of the default LS model
(p_break=True) is reachable.
"""
import sys

import numpy as np

from tf_pwa.amp.core import get_decay, get_particle, variable_scope
from tf_pwa.variable import VarsManager


def build(ja, jb, jc, model):
    A = get_particle("A", J=ja, P=1)
    B = get_particle("B", J=jb, P=1)
    C = get_particle("C", J=jc, P=1)
    d = get_decay(A, [B, C], p_break=True, model=model)
    vm = VarsManager()
    with variable_scope(vm):
        d.init_params()
    return d, vm


def check(ja, jb, jc):
    Ja, Jb, Jc = [eval(x) if isinstance(x, str) else x for x in (ja, jb, jc)]
    lam_b = [-Jb + i for i in range(int(2 * Jb + 1))]
    lam_c = [-Jc + i for i in range(int(2 * Jc + 1))]
    allowed = [
        (i, j)
        for i, lb in enumerate(lam_b)
        for j, lc in enumerate(lam_c)
        if abs(lb - lc) <= Ja
    ]
    forbidden = [
        (i, j)
        for i in range(len(lam_b))
        for j in range(len(lam_c))
        if (i, j) not in allowed
    ]
    d, vm = build(ja, jb, jc, "helicity_full")
    H = np.array(d.get_H())
    free = set(k[:-1] for k in vm.trainable_vars)
    name = lambda ij: "A->B.C_H_{}_{}".format(*ij)
    allowed_pinned_zero = [ij for ij in allowed if name(ij) not in free and H[ij] == 0]
    forbidden_free = [ij for ij in forbidden if name(ij) in free]
    forbidden_nonzero = [ij for ij in forbidden if H[ij] != 0]
    n_free = len(free)

    # the default LS model (library's own, equivalent parameterisation)
    dls, _ = build(ja, jb, jc, "default")
    ls = dls.get_ls_list()
    cg = np.array(dls.get_cg_matrix())  # (n_ls, lambda_b, lambda_c)
    reach = [ij for ij in allowed_pinned_zero if np.abs(cg[(slice(None),) + ij]).max() > 1e-9]

    print("decay J_A={} -> J_B={} J_C={}   H shape {}".format(ja, jb, jc, H.shape))
    print("   independent helicity amplitudes:", len(allowed), " (l,s) couplings of the default model:", len(ls))
    print("   observed free complex couplings:", n_free, " expected:", len(allowed) - 1)
    print("   observed allowed entries pinned to 0:", allowed_pinned_zero, " expected: []")
    print("      of these, non-zero in the default LS model:", reach)
    print("   observed forbidden entries left free:", forbidden_free, " expected: []")
    print("   observed forbidden entries with non-zero value:", forbidden_nonzero, " expected: []")
    return bool(allowed_pinned_zero or forbidden_free or forbidden_nonzero or n_free != len(allowed) - 1)


bad = 0
ok_square = check(1, 1, 1)  # square H: fine
bad += check(1, "3/2", "1/2")
bad += check(1, 1, 2)
bad += check(0, 1, 0)
print("square case wrong:", ok_square, " non-square cases wrong:", bad)
sys.exit(1 if (bad or ok_square) else 0)
