"""
C13 finding 1: the `ls_list` restriction of HelicityDecay is taken verbatim.

`HelicityDecay.get_ls_list()` returns the user's `ls_list` without intersecting
it with the couplings allowed by the triangle rules / parity (/ C-parity),
without removing duplicates and without applying `l_list`.  So with an
`ls_list` restriction the offered couplings are NOT "exactly those allowed ...,
each listed once", the LS -> helicity map loses full rank, and a chain whose
ls_list contains only forbidden couplings survives the ls cut with an
identically vanishing amplitude.

expected value: (allowed couplings, computed by an independent enumeration and
cross-checked with the library's own unrestricted list)  INTERSECT  ls_list
[INTERSECT l_list], each once.
"""
import contextlib
import io
import sys
from fractions import Fraction as F

import numpy as np

np.Inf = np.inf  # numpy>=2 shim, only needed to import the config loader

from tf_pwa.amp.core import get_decay, get_particle


def allowed(ja, pa, jb, pb, jc, pc, p_break=False):
    """independent enumeration of the allowed (l, s)"""
    ja, jb, jc = [F(x).limit_denominator(2) for x in (ja, jb, jc)]
    ret = []
    s = abs(jb - jc)
    while s <= jb + jc:
        for l in range(0, 30):
            if abs(l - s) <= ja <= l + s and (ja + s).denominator == 1:
                if p_break or pa == pb * pc * (-1) ** l:
                    ret.append((l, s))
        s += 1
    return ret


def mk(ja, pa, jb, pb, jc, pc, **kw):
    A = get_particle("A", J=ja, P=pa)
    B = get_particle("B", J=jb, P=pb)
    C = get_particle("C", J=jc, P=pc)
    return get_decay(A, [B, C], **kw)


def expected(jp, ls_list, l_list=None):
    al = allowed(*jp)
    # the library's own unrestricted list agrees with the reference
    assert sorted(mk(*jp).get_ls_list()) == sorted(al), (jp, al)
    ret = []
    for l, s in ls_list:
        if (l, s) in al and (l, s) not in ret:
            if l_list is None or l in l_list:
                ret.append((l, s))
    return tuple(ret)


bad = 0
cases = [
    # name, (ja,pa,jb,pb,jc,pc), ls_list, l_list
    ("triangle-forbidden l=0", (1, -1, 0, -1, 0, -1), [[0, 0], [1, 0]], None),
    (
        "parity-forbidden l=0,2 with p_break=False",
        (1, -1, 1, -1, 0, -1),
        [[0, 1], [1, 1], [2, 1]],
        None,
    ),
    ("duplicate coupling", (1, -1, 1, -1, 0, -1), [[1, 1], [1, 1]], None),
    (
        "ls_list together with l_list=[1]",
        (1, -1, 1, -1, 1, -1),
        [[1, 0], [1, 1], [3, 2]],
        [1],
    ),
]
for name, jp, ls_list, l_list in cases:
    kw = {"ls_list": ls_list}
    if l_list is not None:
        kw["l_list"] = l_list
    d = mk(*jp, **kw)
    got = tuple(d.get_ls_list())
    exp = expected(jp, ls_list, l_list)
    cg = np.array(d.get_cg_matrix()).reshape(len(got), -1)
    rank = np.linalg.matrix_rank(cg, tol=1e-9)
    ok = got == exp and rank == len(got)
    print("case:", name)
    print("   observed get_ls_list():", got, " rank of LS->helicity map:", rank)
    print("   expected              :", exp, " rank:", len(exp))
    if not ok:
        bad += 1

# parity violation really shows up in the helicity couplings:  1- -> 1- 0-
# eta = Pa Pb Pc (-1)^(Ja-Jb-Jc) = -1  =>  H_{0,0} = 0 and H_{-1,0} = -H_{+1,0}
d = mk(1, -1, 1, -1, 0, -1, ls_list=[[0, 1], [1, 1], [2, 1]])
cg = np.array(d.get_cg_matrix())  # (n_ls, lambda_b, lambda_c)
g = np.array([1.0, 0.3, -0.7])
H = np.einsum("i,ibc->bc", g, cg)[:, 0]
print("H_{-1,0}, H_{0,0}, H_{+1,0} with p_break=False:", H)
print("   expected parity relation H_{0,0}=0, H_{-1,0}+H_{+1,0}=0; observed",
      H[1], H[0] + H[2])
if abs(H[1]) > 1e-9 or abs(H[0] + H[2]) > 1e-9:
    bad += 1

# config level: a chain whose ls_list holds only a forbidden coupling is kept
# by the ls cut (an empty list would be removed) and its amplitude is zero.
from tf_pwa.config_loader import ConfigLoader

cfg = {
    "data": {"dat_order": ["B", "C", "D"]},
    "decay": {"A": [["R", "D"]], "R": ["B", "C", {"ls_list": [[0, 0], [2, 0]]}]},
    "particle": {
        "$top": {"A": {"J": 1, "P": -1, "mass": 5.0}},
        "$finals": {
            "B": {"J": 0, "P": -1, "mass": 0.3},
            "C": {"J": 0, "P": -1, "mass": 0.3},
            "D": {"J": 0, "P": -1, "mass": 0.3},
        },
        "R": ["R0", "R1"],
        "R0": {"J": 1, "P": -1, "mass": 2.0, "width": 0.1},
        "R1": {"J": 2, "P": 1, "mass": 2.5, "width": 0.1},
    },
}
with contextlib.redirect_stdout(io.StringIO()):
    c = ConfigLoader(cfg)
    chains = {str(ch): [tuple(dd.get_ls_list()) for dd in ch] for ch in c.get_decay()}
print("config chains and their ls lists:", chains)
# R0 (1-) -> 0- 0- allows only (1,0): ls_list=[(0,0),(2,0)] leaves nothing ->
# the chain has to be removed like any chain without an allowed coupling.
# R1 (2+) -> 0- 0- allows only (2,0).
exp_chains = {"[A->R1+D, R1->B+C]": [((2, 2),), ((2, 0),)]}
print("expected chains and ls lists    :", exp_chains)
if chains != exp_chains:
    bad += 1
    for ch in c.get_decay():
        for dd in ch:
            if str(dd.core).startswith("R0"):
                m = np.array(dd.get_cg_matrix())
                print("   LS->helicity matrix of the kept", dd, "is", m.ravel(),
                      "(identically zero amplitude)")

print("violations:", bad)
sys.exit(1 if bad else 0)
