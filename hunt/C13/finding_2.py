"""
C13 finding 2: `ls_selector: qr` is a silent no-op (or picks too many couplings)
for every decay with half-integer spins.

`ls_selector="qr"` (HelicityDecay.get_ls_list -> ls_selector_qr, tf_pwa/amp/core.py)
is the library's mechanism to make the number of (l,s) couplings equal to the
number of independent helicity amplitudes when a daughter has a restricted
helicity list (massless particle, e.g. a photon with spins [-1, 1]).
Half-integer spins reach sympy's CG as python floats (J: 1/2 -> eval -> 0.5), so
the CG matrix is a matrix of sympy Floats, the QR decomposition carries
round-off and the exact test `r[i, j] == 0` never finds the dependent columns:
all couplings are returned, the LS -> helicity map is rank deficient and
redundant fit parameters are created.  The integer-spin analogue works.

expected value: number of selected couplings == rank of the LS -> helicity
matrix (rank computed with numpy from an independent Racah-formula CG).
"""
import contextlib
import io
import sys
from fractions import Fraction as F
from math import factorial, sqrt

import numpy as np

from tf_pwa.amp.core import get_decay, get_particle


def f(x):
    x = F(x)
    assert x.denominator == 1 and x >= 0
    return factorial(int(x))


def cg(j1, m1, j2, m2, j, m):
    """<j1 m1 j2 m2 | j m>, Racah formula"""
    j1, m1, j2, m2, j, m = [F(x).limit_denominator(2) for x in (j1, m1, j2, m2, j, m)]
    if m1 + m2 != m or j > j1 + j2 or j < abs(j1 - j2):
        return 0.0
    if abs(m1) > j1 or abs(m2) > j2 or abs(m) > j:
        return 0.0
    if (j1 + j2 + j).denominator != 1:
        return 0.0
    pre = F((2 * j + 1) * f(j + j1 - j2) * f(j - j1 + j2) * f(j1 + j2 - j), f(j1 + j2 + j + 1))
    pre *= f(j + m) * f(j - m) * f(j1 - m1) * f(j1 + m1) * f(j2 - m2) * f(j2 + m2)
    s = F(0)
    for k in range(0, 40):
        ds = [j1 + j2 - j - k, j1 - m1 - k, j2 + m2 - k, j - j2 + m1 + k, j - j1 - m2 + k]
        if any(d < 0 for d in ds):
            continue
        den = f(k)
        for d in ds:
            den *= f(d)
        s += F((-1) ** k, den)
    return float(s) * sqrt(float(pre))


def run(name, ja, pa, jb, pb, spins_b, jc, pc, p_break=False):
    def mk(**kw):
        A = get_particle("A", J=ja, P=pa)
        B = get_particle("B", J=jb, P=pb, spins=spins_b)
        C = get_particle("C", J=jc, P=pc)
        return get_decay(A, [B, C], p_break=p_break, **kw)

    all_ls = mk().get_ls_list()
    with contextlib.redirect_stdout(io.StringIO()):
        d = mk(ls_selector="qr")
        sel = d.get_ls_list()
    Ja, Jb, Jc = [eval(x) if isinstance(x, str) else x for x in (ja, jb, jc)]
    lam_c = [-Jc + i for i in range(int(2 * Jc + 1))]
    ref = np.array(
        [
            [
                sqrt((2 * l + 1) / (2 * Ja + 1))
                * cg(Jb, lb, Jc, -lc, s, lb - lc)
                * cg(l, 0, s, lb - lc, Ja, lb - lc)
                for lb in spins_b
                for lc in lam_c
            ]
            for l, s in all_ls
        ]
    )
    rank = np.linalg.matrix_rank(ref, tol=1e-9)
    lib = np.array(d.get_cg_matrix()).reshape(len(sel), -1)
    rank_sel = np.linalg.matrix_rank(lib, tol=1e-9)
    print(name)
    print("   all allowed (l,s):", all_ls, " independent helicity amplitudes (rank):", rank)
    print("   observed ls_selector=qr:", sel, "-> rank of its LS->helicity map:", rank_sel)
    print("   expected number of couplings:", rank)
    return len(sel) != rank or rank_sel != len(sel)


bad = 0
# integer analogue (works): 1- -> gamma 1+
bad_int = run("integer spins  1- -> gamma(+-1) 1+", 1, -1, 1, -1, [-1, 1], 1, 1)
# half-integer: 1/2+ -> gamma 1/2+  (e.g. Sigma0 -> gamma Lambda)
bad += run("half-integer  1/2+ -> gamma(+-1) 1/2+", "1/2", 1, 1, -1, [-1, 1], "1/2", 1)
# 3/2- -> gamma 1/2+, parity violating
bad += run("half-integer  3/2- -> gamma(+-1) 1/2+ (p_break)", "3/2", -1, 1, -1, [-1, 1], "1/2", 1, p_break=True)
# 1/2+ -> gamma 3/2+
bad += run("half-integer  1/2+ -> gamma(+-1) 3/2+", "1/2", 1, 1, -1, [-1, 1], "3/2", 1)
print("integer case wrong:", bad_int, " half-integer cases wrong:", bad)
sys.exit(1 if (bad or bad_int) else 0)
