import os, sys, copy, tempfile
import numpy as np
np.Inf = np.inf
os.environ.setdefault("CUDA_VISIBLE_DEVICES", "")
os.environ.setdefault("TF_CPP_MIN_LOG_LEVEL", "3")
import warnings
warnings.filterwarnings("ignore")
import yaml
import tensorflow as tf
import tf_pwa
from tf_pwa import set_random_seed
from tf_pwa.applications import gen_data, gen_mc
from tf_pwa.config_loader import ConfigLoader

TESTS = os.path.join(os.path.dirname(os.path.abspath(tf_pwa.__file__)), "tests")
WORK = tempfile.mkdtemp(prefix="c07_finding_")
os.chdir(WORK)
os.makedirs("toy_data", exist_ok=True)


def _toy_data():
    """deterministic toy sample A -> B C D (same recipe as tf_pwa/tests/test_full.py)"""
    set_random_seed(1)
    mA, mB, mC, mD = 4.6, 2.00698, 2.01028, 0.13957
    np.savetxt("toy_data/PHSP.dat", gen_mc(mA, [mB, mC, mD], 1500))
    cfg = ConfigLoader(f"{TESTS}/config_toy.yml")
    cfg.set_params(f"{TESTS}/gen_params.json")
    gen_data(cfg.get_amplitude(), Ndata=150, mcfile="toy_data/PHSP.dat",
             genfile="toy_data/data.dat", particles=cfg.get_dat_order())
    bg = gen_mc(mA, [mB, mC, mD], 100)
    d = np.loadtxt("toy_data/data.dat")
    np.savetxt("toy_data/data.dat", np.concatenate([d, bg[:150]]))  # 200 events
    np.savetxt("toy_data/bg.dat", bg)
    rng = np.random.RandomState(5)
    for n, size in [("data", 200), ("phsp", 1500)]:
        np.savetxt(f"toy_data/{n}_bg_value.dat", rng.uniform(0.5, 1.5, size))
        np.savetxt(f"toy_data/{n}_eff_value.dat", rng.uniform(0.5, 1.5, size))


_toy_data()
BASE = yaml.safe_load(open(f"{TESTS}/config_toy.yml"))
BASE.pop("plot", None)
CFIT = dict(model="cfit", bg_frac=0.2,
            data_bg_value="toy_data/data_bg_value.dat", phsp_bg_value="toy_data/phsp_bg_value.dat",
            data_eff_value="toy_data/data_eff_value.dat", phsp_eff_value="toy_data/phsp_eff_value.dat")


def make_config(data_over=None, constrains=None, drop_bg=False):
    c = copy.deepcopy(BASE)
    if drop_bg:
        c["data"].pop("bg"); c["data"].pop("bg_weight")
    c["data"].update(data_over or {})
    c["constrains"].update(constrains or {})
    cfg = ConfigLoader(c)
    cfg.set_params(f"{TESTS}/exp_params.json")
    return cfg


def arr(g):
    return np.array([float(i) for i in g])


def rel(a, b):
    a = np.asarray(a, dtype=float); b = np.asarray(b, dtype=float)
    return float(np.max(np.abs(a - b)) / max(np.max(np.abs(b)), 1e-300))


def fd_dir(f, x, p, h=1e-5):
    """central finite difference of f along p"""
    return (np.asarray(f(x + h * p), dtype=float) - np.asarray(f(x - h * p), dtype=float)) / (2 * h)

# ---------------------------------------------------------------------------
# Finding 8 (documented limitation without any runtime guard): `cached_int: True` with a floating
# mass/width.  The normalisation integral is frozen at the masses of the first call, so the value and
# gradient returned by nll_grad / nll_grad_hessian are not those of the NLL FCN.__call__ reports.
# ---------------------------------------------------------------------------
cfg = make_config(dict(cached_int=True), constrains={"free_var": ["R_BC_mass", "R_BC_width"]})
fcn = cfg.get_fcn()
vm = fcn.vm
x = np.array(vm.get_all_val(), dtype=float)
i = vm.trainable_vars.index("R_BC_mass")
e = np.zeros(len(x)); e[i] = 1.0
v_call = float(fcn(x)); v_g, g = fcn.nll_grad(x)
d = float(fd_dir(lambda y: float(fcn(y)), x, e, 1e-6))
print("at the first point  : __call__", v_call, " nll_grad", v_g)
print("   dNLL/dm(R_BC) expected (finite diff of __call__):", d, "  observed nll_grad:", float(g[i]))
x2 = x.copy(); x2[i] += 0.02
v_call2 = float(fcn(x2)); v_g2, g2 = fcn.nll_grad(x2); v_h2, _, _ = fcn.nll_grad_hessian(x2)
print("mass moved by 20 MeV: __call__", v_call2, "(expected)  nll_grad", v_g2, " nll_grad_hessian", float(v_h2), "(observed)")
bad = abs(float(g[i]) - d) > 1e-4 * abs(d) or abs(v_call2 - v_g2) > 1e-6 * max(1, abs(v_call2))
print("VIOLATION" if bad else "ok")
sys.exit(1 if bad else 0)
