# ---------------------------------------------------------------------------
# Finding 7: tf_pwa.fit_improve.Cached_FG (wrapper put around vm.trans_fcn_grad(fcn.nll_grad) by
# fit_scipy) replaces NaN gradient components by a finite difference that is half the derivative:
# it evaluates f(x+h) and f(x) (the step is undone before the second call) but divides by 2h.
# (Cached_FG.grad has the same code and additionally subtracts the (f, g) tuples.)
# ---------------------------------------------------------------------------
import sys
import numpy as np
np.Inf = np.inf
from tf_pwa.fit_improve import Cached_FG


def f_g(x):
    x = np.asarray(x, dtype=float)
    f = x[0] ** 2 + 3 * x[1] ** 2
    return f, np.array([2 * x[0], np.nan])  # autodiff produced NaN for the 2nd component


x = np.array([1.0, 2.0])
f, g = Cached_FG(f_g)(x)
expected = np.array([2.0, 12.0])
print("value", f)
print("gradient returned by Cached_FG (observed):", g)
print("true gradient                  (expected):", expected)
bad = not np.allclose(g, expected, rtol=1e-4)
print("VIOLATION" if bad else "ok")
sys.exit(1 if bad else 0)
