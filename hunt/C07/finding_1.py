import os, sys, copy, tempfile
import numpy as np
np.Inf = np.inf
os.environ.setdefault("CUDA_VISIBLE_DEVICES", "")
os.environ.setdefault("TF_CPP_MIN_LOG_LEVEL", "3")
import warnings
warnings.filterwarnings("ignore")
import yaml
import tensorflow as tf
import tf_pwa
from tf_pwa import set_random_seed
from tf_pwa.applications import gen_data, gen_mc
from tf_pwa.config_loader import ConfigLoader

TESTS = os.path.join(os.path.dirname(os.path.abspath(tf_pwa.__file__)), "tests")
WORK = tempfile.mkdtemp(prefix="c07_finding_")
os.chdir(WORK)
os.makedirs("toy_data", exist_ok=True)


def _toy_data():
    """deterministic toy sample A -> B C D (same recipe as tf_pwa/tests/test_full.py)"""
    set_random_seed(1)
    mA, mB, mC, mD = 4.6, 2.00698, 2.01028, 0.13957
    np.savetxt("toy_data/PHSP.dat", gen_mc(mA, [mB, mC, mD], 1500))
    cfg = ConfigLoader(f"{TESTS}/config_toy.yml")
    cfg.set_params(f"{TESTS}/gen_params.json")
    gen_data(cfg.get_amplitude(), Ndata=150, mcfile="toy_data/PHSP.dat",
             genfile="toy_data/data.dat", particles=cfg.get_dat_order())
    bg = gen_mc(mA, [mB, mC, mD], 100)
    d = np.loadtxt("toy_data/data.dat")
    np.savetxt("toy_data/data.dat", np.concatenate([d, bg[:150]]))  # 200 events
    np.savetxt("toy_data/bg.dat", bg)
    rng = np.random.RandomState(5)
    for n, size in [("data", 200), ("phsp", 1500)]:
        np.savetxt(f"toy_data/{n}_bg_value.dat", rng.uniform(0.5, 1.5, size))
        np.savetxt(f"toy_data/{n}_eff_value.dat", rng.uniform(0.5, 1.5, size))


_toy_data()
BASE = yaml.safe_load(open(f"{TESTS}/config_toy.yml"))
BASE.pop("plot", None)
CFIT = dict(model="cfit", bg_frac=0.2,
            data_bg_value="toy_data/data_bg_value.dat", phsp_bg_value="toy_data/phsp_bg_value.dat",
            data_eff_value="toy_data/data_eff_value.dat", phsp_eff_value="toy_data/phsp_eff_value.dat")


def make_config(data_over=None, constrains=None, drop_bg=False):
    c = copy.deepcopy(BASE)
    if drop_bg:
        c["data"].pop("bg"); c["data"].pop("bg_weight")
    c["data"].update(data_over or {})
    c["constrains"].update(constrains or {})
    cfg = ConfigLoader(c)
    cfg.set_params(f"{TESTS}/exp_params.json")
    return cfg


def arr(g):
    return np.array([float(i) for i in g])


def rel(a, b):
    a = np.asarray(a, dtype=float); b = np.asarray(b, dtype=float)
    return float(np.max(np.abs(a - b)) / max(np.max(np.abs(b)), 1e-300))


def fd_dir(f, x, p, h=1e-5):
    """central finite difference of f along p"""
    return (np.asarray(f(x + h * p), dtype=float) - np.asarray(f(x - h * p), dtype=float)) / (2 * h)

# ---------------------------------------------------------------------------
# Finding 1: FCN.grad_hessp of every non-default likelihood model (cfit, cfit_extended,
# cfit_cached, simple_cfit, constr_frac, cfit_constr_frac, simple_chi2, inject_mc) returns the
# gradient and Hessian-vector product of the *default* NLL, not of the NLL the model reports.
# ---------------------------------------------------------------------------
bad = False
for label, over in [("cfit", CFIT), ("cfit_extended", dict(CFIT, extended=True))]:
    cfg = make_config(over, drop_bg=True)
    fcn = cfg.get_fcn()
    x = np.array(fcn.vm.get_all_val(), dtype=float)
    p = np.random.RandomState(3).normal(size=len(x))
    nll, g = fcn.nll_grad(x)
    g = arr(g)
    dnll = float(fd_dir(lambda y: float(fcn(y)), x, p))
    Hp_fd = fd_dir(lambda y: arr(fcn.nll_grad(y)[1]), x, p)
    g_hp, hp = fcn.grad_hessp(x, p)
    g_hp = arr(g_hp); hp = np.asarray(hp, dtype=float)
    _, _, H = fcn.nll_grad_hessian(x)
    Hp = np.asarray(H, dtype=float) @ p
    print(f"== model {label}")
    print("  d NLL/d t along p (finite diff of FCN.__call__) expected:", dnll)
    print("  nll_grad gradient . p                                   :", g @ p)
    print("  grad_hessp gradient . p                        observed :", g_hp @ p)
    print("  rel. diff gradient(grad_hessp) vs gradient(nll_grad)    : %.3e" % rel(g_hp, g))
    print("  H.p expected (finite diff of nll_grad) first 4:", Hp_fd[:4])
    print("  H.p from nll_grad_hessian              first 4:", Hp[:4])
    print("  hessp from grad_hessp        observed  first 4:", hp[:4])
    print("  rel. diff hessp vs expected: %.3e   (nll_grad_hessian vs expected: %.3e)" % (rel(hp, Hp_fd), rel(Hp, Hp_fd)))
    if rel(g_hp, g) > 1e-6 or rel(hp, Hp_fd) > 1e-5:
        bad = True
print("VIOLATION" if bad else "ok")
sys.exit(1 if bad else 0)
