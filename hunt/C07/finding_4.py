import os, sys, copy, tempfile
import numpy as np
np.Inf = np.inf
os.environ.setdefault("CUDA_VISIBLE_DEVICES", "")
os.environ.setdefault("TF_CPP_MIN_LOG_LEVEL", "3")
import warnings
warnings.filterwarnings("ignore")
import yaml
import tensorflow as tf
import tf_pwa
from tf_pwa import set_random_seed
from tf_pwa.applications import gen_data, gen_mc
from tf_pwa.config_loader import ConfigLoader

TESTS = os.path.join(os.path.dirname(os.path.abspath(tf_pwa.__file__)), "tests")
WORK = tempfile.mkdtemp(prefix="c07_finding_")
os.chdir(WORK)
os.makedirs("toy_data", exist_ok=True)


def _toy_data():
    """deterministic toy sample A -> B C D (same recipe as tf_pwa/tests/test_full.py)"""
    set_random_seed(1)
    mA, mB, mC, mD = 4.6, 2.00698, 2.01028, 0.13957
    np.savetxt("toy_data/PHSP.dat", gen_mc(mA, [mB, mC, mD], 1500))
    cfg = ConfigLoader(f"{TESTS}/config_toy.yml")
    cfg.set_params(f"{TESTS}/gen_params.json")
    gen_data(cfg.get_amplitude(), Ndata=150, mcfile="toy_data/PHSP.dat",
             genfile="toy_data/data.dat", particles=cfg.get_dat_order())
    bg = gen_mc(mA, [mB, mC, mD], 100)
    d = np.loadtxt("toy_data/data.dat")
    np.savetxt("toy_data/data.dat", np.concatenate([d, bg[:150]]))  # 200 events
    np.savetxt("toy_data/bg.dat", bg)
    rng = np.random.RandomState(5)
    for n, size in [("data", 200), ("phsp", 1500)]:
        np.savetxt(f"toy_data/{n}_bg_value.dat", rng.uniform(0.5, 1.5, size))
        np.savetxt(f"toy_data/{n}_eff_value.dat", rng.uniform(0.5, 1.5, size))


_toy_data()
BASE = yaml.safe_load(open(f"{TESTS}/config_toy.yml"))
BASE.pop("plot", None)
CFIT = dict(model="cfit", bg_frac=0.2,
            data_bg_value="toy_data/data_bg_value.dat", phsp_bg_value="toy_data/phsp_bg_value.dat",
            data_eff_value="toy_data/data_eff_value.dat", phsp_eff_value="toy_data/phsp_eff_value.dat")


def make_config(data_over=None, constrains=None, drop_bg=False):
    c = copy.deepcopy(BASE)
    if drop_bg:
        c["data"].pop("bg"); c["data"].pop("bg_weight")
    c["data"].update(data_over or {})
    c["constrains"].update(constrains or {})
    cfg = ConfigLoader(c)
    cfg.set_params(f"{TESTS}/exp_params.json")
    return cfg


def arr(g):
    return np.array([float(i) for i in g])


def rel(a, b):
    a = np.asarray(a, dtype=float); b = np.asarray(b, dtype=float)
    return float(np.max(np.abs(a - b)) / max(np.max(np.abs(b)), 1e-300))


def fd_dir(f, x, p, h=1e-5):
    """central finite difference of f along p"""
    return (np.asarray(f(x + h * p), dtype=float) - np.asarray(f(x - h * p), dtype=float)) / (2 * h)

# ---------------------------------------------------------------------------
# Finding 4: `using_mix_likelihood: True` (MixLogLikehoodFCN) with a non-default model (here
# `model: cfit`): nll_grad returns value and gradient of the *default* likelihood
# (Model.sum_nll_grad_bacth / sum_log_integral_grad_batch), whereas __call__, nll_grad_hessian and
# grad_hessp are those of the sub-FCNs, i.e. of the cfit likelihood.
# ---------------------------------------------------------------------------
D2 = dict(CFIT, data=[["toy_data/data.dat"], ["toy_data/data.dat"]], phsp=[["toy_data/PHSP.dat"], ["toy_data/PHSP.dat"]],
          bg_frac=[0.2, 0.3], using_mix_likelihood=True,
          data_bg_value=["toy_data/data_bg_value.dat"] * 2, phsp_bg_value=["toy_data/phsp_bg_value.dat"] * 2,
          data_eff_value=["toy_data/data_eff_value.dat"] * 2, phsp_eff_value=["toy_data/phsp_eff_value.dat"] * 2)
cfg = make_config(D2, drop_bg=True)
import io, contextlib
fcn = cfg.get_fcn()
print(type(fcn).__name__, [type(m).__name__ for m in fcn.model])
x = np.array(fcn.vm.get_all_val(), dtype=float)
p = np.random.RandomState(3).normal(size=len(x))
with contextlib.redirect_stdout(io.StringIO()):
    v_call = float(fcn(x))
    v_g, g = fcn.nll_grad(x)
    v_h, g_h, H = fcn.nll_grad_hessian(x)
    d_call = float(fd_dir(lambda y: float(fcn(y)), x, p))
g = arr(g); g_h = arr(g_h)
print("NLL from __call__        (expected):", v_call)
print("NLL from nll_grad_hessian          :", float(v_h))
print("NLL from nll_grad        (observed):", v_g)
print("dNLL along p, finite diff of __call__ (expected):", d_call)
print("gradient.p from nll_grad_hessian               :", g_h @ p)
print("gradient.p from nll_grad             (observed):", g @ p)
bad = abs(v_call - v_g) > 1e-6 * max(1, abs(v_call)) or abs(g @ p - d_call) > 1e-5 * max(1, abs(d_call))
print("VIOLATION" if bad else "ok")
sys.exit(1 if bad else 0)
