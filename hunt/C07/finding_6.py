import os, sys, copy, tempfile
import numpy as np
np.Inf = np.inf
os.environ.setdefault("CUDA_VISIBLE_DEVICES", "")
os.environ.setdefault("TF_CPP_MIN_LOG_LEVEL", "3")
import warnings
warnings.filterwarnings("ignore")
import yaml
import tensorflow as tf
import tf_pwa
from tf_pwa import set_random_seed
from tf_pwa.applications import gen_data, gen_mc
from tf_pwa.config_loader import ConfigLoader

TESTS = os.path.join(os.path.dirname(os.path.abspath(tf_pwa.__file__)), "tests")
WORK = tempfile.mkdtemp(prefix="c07_finding_")
os.chdir(WORK)
os.makedirs("toy_data", exist_ok=True)


def _toy_data():
    """deterministic toy sample A -> B C D (same recipe as tf_pwa/tests/test_full.py)"""
    set_random_seed(1)
    mA, mB, mC, mD = 4.6, 2.00698, 2.01028, 0.13957
    np.savetxt("toy_data/PHSP.dat", gen_mc(mA, [mB, mC, mD], 1500))
    cfg = ConfigLoader(f"{TESTS}/config_toy.yml")
    cfg.set_params(f"{TESTS}/gen_params.json")
    gen_data(cfg.get_amplitude(), Ndata=150, mcfile="toy_data/PHSP.dat",
             genfile="toy_data/data.dat", particles=cfg.get_dat_order())
    bg = gen_mc(mA, [mB, mC, mD], 100)
    d = np.loadtxt("toy_data/data.dat")
    np.savetxt("toy_data/data.dat", np.concatenate([d, bg[:150]]))  # 200 events
    np.savetxt("toy_data/bg.dat", bg)
    rng = np.random.RandomState(5)
    for n, size in [("data", 200), ("phsp", 1500)]:
        np.savetxt(f"toy_data/{n}_bg_value.dat", rng.uniform(0.5, 1.5, size))
        np.savetxt(f"toy_data/{n}_eff_value.dat", rng.uniform(0.5, 1.5, size))


_toy_data()
BASE = yaml.safe_load(open(f"{TESTS}/config_toy.yml"))
BASE.pop("plot", None)
CFIT = dict(model="cfit", bg_frac=0.2,
            data_bg_value="toy_data/data_bg_value.dat", phsp_bg_value="toy_data/phsp_bg_value.dat",
            data_eff_value="toy_data/data_eff_value.dat", phsp_eff_value="toy_data/phsp_eff_value.dat")


def make_config(data_over=None, constrains=None, drop_bg=False):
    c = copy.deepcopy(BASE)
    if drop_bg:
        c["data"].pop("bg"); c["data"].pop("bg_weight")
    c["data"].update(data_over or {})
    c["constrains"].update(constrains or {})
    cfg = ConfigLoader(c)
    cfg.set_params(f"{TESTS}/exp_params.json")
    return cfg


def arr(g):
    return np.array([float(i) for i in g])


def rel(a, b):
    a = np.asarray(a, dtype=float); b = np.asarray(b, dtype=float)
    return float(np.max(np.abs(a - b)) / max(np.max(np.abs(b)), 1e-300))


def fd_dir(f, x, p, h=1e-5):
    """central finite difference of f along p"""
    return (np.asarray(f(x + h * p), dtype=float) - np.asarray(f(x - h * p), dtype=float)) / (2 * h)

# ---------------------------------------------------------------------------
# Finding 6 (history): likelihoods that evaluate the amplitude through a traced tf.function
# (`use_tf_function: True` for every model; `cached_amp: True`, `cached_int: True`, cfit+cached_amp
# always) bake the polar/Cartesian flag vm.complex_vars into the graph.  After
# vm.rp2xy_all() (same physical point, other coordinates) nll_grad / nll_grad_hessian / grad_hessp keep
# interpreting the new (x, y) numbers as (r, phi): they return a different NLL than FCN.__call__, and
# a gradient that is not the derivative of the stand-alone NLL.
# ---------------------------------------------------------------------------
bad = False
for label, over in [("use_tf_function", dict(use_tf_function=True)), ("cached_amp", dict(cached_amp=True))]:
    cfg = make_config(over)
    fcn = cfg.get_fcn()
    vm = fcn.vm
    x = np.array(vm.get_all_val(), dtype=float)
    for _ in range(2):   # second call goes through the traced function
        v_call0 = float(fcn(x)); v_g0, _g = fcn.nll_grad(x)
    vm.rp2xy_all()       # same amplitude, Cartesian coordinates
    x = np.array(vm.get_all_val(), dtype=float)
    p = np.random.RandomState(3).normal(size=len(x))
    v_call = float(fcn(x)); v_g, g = fcn.nll_grad(x)
    d_call = float(fd_dir(lambda y: float(fcn(y)), x, p))
    print(f"== {label}")
    print("   polar coordinates : __call__", v_call0, " nll_grad", v_g0)
    print("   after rp2xy_all() : __call__", v_call, "(expected, unchanged)  nll_grad", v_g, "(observed)")
    print("   dNLL along p: finite diff of __call__ (expected)", d_call, "  nll_grad gradient.p (observed)", arr(g) @ p)
    bad |= abs(v_call - v_g) > 1e-6 * max(1, abs(v_call))
print("VIOLATION" if bad else "ok")
sys.exit(1 if bad else 0)
