import os, sys, copy, tempfile
import numpy as np
np.Inf = np.inf
os.environ.setdefault("CUDA_VISIBLE_DEVICES", "")
os.environ.setdefault("TF_CPP_MIN_LOG_LEVEL", "3")
import warnings
warnings.filterwarnings("ignore")
import yaml
import tensorflow as tf
import tf_pwa
from tf_pwa import set_random_seed
from tf_pwa.applications import gen_data, gen_mc
from tf_pwa.config_loader import ConfigLoader

TESTS = os.path.join(os.path.dirname(os.path.abspath(tf_pwa.__file__)), "tests")
WORK = tempfile.mkdtemp(prefix="c07_finding_")
os.chdir(WORK)
os.makedirs("toy_data", exist_ok=True)


def _toy_data():
    """deterministic toy sample A -> B C D (same recipe as tf_pwa/tests/test_full.py)"""
    set_random_seed(1)
    mA, mB, mC, mD = 4.6, 2.00698, 2.01028, 0.13957
    np.savetxt("toy_data/PHSP.dat", gen_mc(mA, [mB, mC, mD], 1500))
    cfg = ConfigLoader(f"{TESTS}/config_toy.yml")
    cfg.set_params(f"{TESTS}/gen_params.json")
    gen_data(cfg.get_amplitude(), Ndata=150, mcfile="toy_data/PHSP.dat",
             genfile="toy_data/data.dat", particles=cfg.get_dat_order())
    bg = gen_mc(mA, [mB, mC, mD], 100)
    d = np.loadtxt("toy_data/data.dat")
    np.savetxt("toy_data/data.dat", np.concatenate([d, bg[:150]]))  # 200 events
    np.savetxt("toy_data/bg.dat", bg)
    rng = np.random.RandomState(5)
    for n, size in [("data", 200), ("phsp", 1500)]:
        np.savetxt(f"toy_data/{n}_bg_value.dat", rng.uniform(0.5, 1.5, size))
        np.savetxt(f"toy_data/{n}_eff_value.dat", rng.uniform(0.5, 1.5, size))


_toy_data()
BASE = yaml.safe_load(open(f"{TESTS}/config_toy.yml"))
BASE.pop("plot", None)
CFIT = dict(model="cfit", bg_frac=0.2,
            data_bg_value="toy_data/data_bg_value.dat", phsp_bg_value="toy_data/phsp_bg_value.dat",
            data_eff_value="toy_data/data_eff_value.dat", phsp_eff_value="toy_data/phsp_eff_value.dat")


def make_config(data_over=None, constrains=None, drop_bg=False):
    c = copy.deepcopy(BASE)
    if drop_bg:
        c["data"].pop("bg"); c["data"].pop("bg_weight")
    c["data"].update(data_over or {})
    c["constrains"].update(constrains or {})
    cfg = ConfigLoader(c)
    cfg.set_params(f"{TESTS}/exp_params.json")
    return cfg


def arr(g):
    return np.array([float(i) for i in g])


def rel(a, b):
    a = np.asarray(a, dtype=float); b = np.asarray(b, dtype=float)
    return float(np.max(np.abs(a - b)) / max(np.max(np.abs(b)), 1e-300))


def fd_dir(f, x, p, h=1e-5):
    """central finite difference of f along p"""
    return (np.asarray(f(x + h * p), dtype=float) - np.asarray(f(x - h * p), dtype=float)) / (2 * h)

# ---------------------------------------------------------------------------
# Finding 2: a Gaussian constraint given for the non-head name of a `var_equal` pair is added to the
# NLL value (FCN.__call__, nll_grad, nll_grad_hessian) but is dropped from the gradient, the Hessian
# and the Hessian-vector product (GaussianConstr.get_constrain_grad/hessian skip names that are not
# in vm.trainable_vars although the tf.Variable behind the name is trainable).
# ---------------------------------------------------------------------------
a = "A->R_BD.C_g_ls_1r"   # head: stays in vm.trainable_vars
b = "A->R_CD.B_g_ls_1r"   # alias: same tf.Variable, removed from vm.trainable_vars
mean, sigma = 0.3, 0.1
cfg = make_config(constrains={"var_equal": [[a, b]], "gauss_constr": {b: [mean, sigma]}})
fcn = cfg.get_fcn()
vm = fcn.vm
assert vm.variables[a] is vm.variables[b] and a in vm.trainable_vars and b not in vm.trainable_vars
x = np.array(vm.get_all_val(), dtype=float)
i = vm.trainable_vars.index(a)
e = np.zeros(len(x)); e[i] = 1.0
nll, g = fcn.nll_grad(x)
g = arr(g)
_, g_h, H = fcn.nll_grad_hessian(x)
g_hp, hp = fcn.grad_hessp(x, e)
d1 = float(fd_dir(lambda y: float(fcn(y)), x, e))                       # true dNLL/da
d2 = float((float(fcn(x + 1e-4 * e)) - 2 * float(fcn(x)) + float(fcn(x - 1e-4 * e))) / 1e-8)  # true d2NLL/da2
print("value FCN.__call__ =", float(fcn(x)), " value from nll_grad =", nll)
print("constraint term in the value               :", (x[i] - mean) ** 2 / 2 / sigma**2)
print("dNLL/da   expected (finite diff of value)  :", d1)
print("dNLL/da   observed nll_grad                :", g[i], "  nll_grad_hessian:", float(g_h[i]), "  grad_hessp:", float(g_hp[i]))
print("missing piece (a-mean)/sigma^2             :", (x[i] - mean) / sigma**2)
print("d2NLL/da2 expected (finite diff of value)  :", d2)
print("d2NLL/da2 observed nll_grad_hessian        :", float(np.asarray(H)[i, i]), "  grad_hessp:", float(np.asarray(hp)[i]))
print("missing piece 1/sigma^2                    :", 1 / sigma**2)
bad = abs(g[i] - d1) > 1e-5 * max(1, abs(d1)) or abs(float(np.asarray(H)[i, i]) - d2) > 1e-3 * abs(d2)
print("VIOLATION" if bad else "ok")
sys.exit(1 if bad else 0)
