# ---------------------------------------------------------------------------
# Finding 9: VarsManager.minimize transforms the inverse Hessian of a bounded parameter with dy/dx
# evaluated at the *physical* value y (ret.x is overwritten by get_all_val() before
# trans_error_matrix(ret.hess_inv, ret.x) is called) instead of at the fit variable x.
# ---------------------------------------------------------------------------
import sys
import numpy as np
np.Inf = np.inf
import tensorflow as tf
from tf_pwa.variable import VarsManager

vm = VarsManager()
vm.add_real_var("a", value=0.3)
vm.add_real_var("b", value=0.5)
vm.set_bound({"a": (0.0, 1.0)})


def fcn():
    a = vm.variables["a"]; b = vm.variables["b"]
    return 50 * (a - 0.7) ** 2 + 2 * (b - 1.0) ** 2 + 3 * (a - 0.7) * (b - 1.0)


ret = vm.minimize(fcn, method="BFGS", mini_kwargs={"options": {"gtol": 1e-10}})
expected = np.linalg.inv(np.array([[100.0, 3.0], [3.0, 4.0]]))
print("minimum at", ret.x)
print("hess_inv returned (observed):\n", ret.hess_inv)
print("inverse Hessian in (a, b) (expected):\n", expected)
xa = np.arcsin(2 * 0.7 - 1)
print("ratio [0,0] obs/exp:", ret.hess_inv[0, 0] / expected[0, 0], " (cos(y)/cos(x))^2 =", (np.cos(0.7) / np.cos(xa)) ** 2)
bad = abs(ret.hess_inv[0, 0] / expected[0, 0] - 1) > 0.05
print("VIOLATION" if bad else "ok")
sys.exit(1 if bad else 0)
