"""
C02 violation: self-conjugate final state (``data: cp_particles``) and the choice
of the z axis / center_mass.

X(1--) -> pi+ pi- J/psi with ``cp_particles: [[pip, pim]]`` (the structure of
tf_pwa/tests/config_self_cp.yml; all spin projections of X are summed, so the
density cannot depend on the quantisation axis).  The parent moves in the lab.

  * default options (random_z=True: z along the parent, center_mass=False)
  * random_z=False (fixed z axis)
  * center_mass=True (angles in the centre-of-mass frame)

must give the same density for every event.  They do not: the first differs
from the other two by O(1).

Cause: DecayGroup.get_amp3 (tf_pwa/amp/core.py) adds the amplitude of the CP
image with *all* helicity indices reversed, including the spin projection of
the parent.  m -> -m for the parent is not covariant under a rotation of the
axes (D_{-m,-m'} != D_{m,m'}), so  sum_m |a_m + c b_{-m}|^2  depends on the
axes.  In addition cal_angle.cp_swap_p negates the momenta in the lab frame, so
for random_z=True and a moving parent the z axis of the CP image is flipped,
for a fixed z axis (or a parent at rest, center_mass=True) it is not.
"""
import copy
import sys

import numpy as np

if not hasattr(np, "Inf"):
    np.Inf = np.inf

import tensorflow as tf

from tf_pwa.config_loader import ConfigLoader
from tf_pwa.phasespace import PhaseSpaceGenerator

base = {
    "data": {
        "dat_order": ["pip", "pim", "jpsi"],
        "cp_particles": [["pip", "pim"]],
    },
    "decay": {
        "X": [["Zcp", "pim"], ["jpsi", "rho"], ["Zcm", "pip"]],
        "Zcp": ["pip", "jpsi"],
        "Zcm": ["pim", "jpsi"],
        "rho": ["pip", "pim", {"c_break": False}],
    },
    "particle": {
        "$top": {"X": {"J": 1, "P": -1, "C": -1, "mass": 4.6}},
        "$finals": {
            "pip": {"J": 0, "P": -1, "mass": 0.139},
            "pim": {"J": 0, "P": -1, "mass": 0.139},
            "jpsi": {"J": 1, "P": -1, "C": -1, "mass": 3.0},
        },
        "Zcp": {"J": 1, "P": 1, "mass": 3.9, "width": 0.05},
        "Zcm": {"J": 1, "P": 1, "mass": 3.9, "width": 0.05},
        "rho": {"J": 0, "P": 1, "C": 1, "mass": 0.9, "width": 0.3},
    },
}
names = ["pip", "pim", "jpsi"]


def boost(p, beta):
    beta = np.asarray(beta, dtype=float)
    b2 = np.sum(beta**2)
    g = 1 / np.sqrt(1 - b2)
    bp = p[:, 1:] @ beta
    sp = p[:, 1:] + ((g - 1) / b2 * bp + g * p[:, 0])[:, None] * beta
    return np.concatenate([(g * (p[:, 0] + bp))[:, None], sp], axis=1)


def density(p4, **data_opts):
    dic = copy.deepcopy(base)
    dic["data"].update(data_opts)
    config = ConfigLoader(dic)
    vm = config.get_amplitude().vm
    rng = np.random.RandomState(7)
    for k in sorted(vm.variables.keys()):  # parameters fixed by name
        v = rng.uniform(0.5, 1.5)
        if not (k.endswith("_mass") or k.endswith("_width")):
            vm.set(k, v)
    data = config.data.cal_angle(dict(zip(names, p4)))
    return config.get_amplitude()(data).numpy()


tf.random.set_seed(3)
np.random.seed(3)
p4_rest = [
    i.numpy() for i in PhaseSpaceGenerator(4.6, [0.139, 0.139, 3.0]).generate(6)
]
p4_lab = [boost(i, [0.3, -0.2, 0.5]) for i in p4_rest]

np.set_printoptions(precision=6, linewidth=150)
d_default = density(p4_lab)  # random_z=True, center_mass=False
d_fixz = density(p4_lab, random_z=False)
d_cm = density(p4_lab, center_mass=True)
print("default (z along parent, lab frame):", d_default)
print("random_z=False (fixed z)           :", d_fixz)
print("center_mass=True                   :", d_cm)
e1 = np.max(np.abs(d_default / d_fixz - 1))
e2 = np.max(np.abs(d_default / d_cm - 1))
e3 = np.max(np.abs(d_fixz / d_cm - 1))
print("max rel. diff default vs fixed z   :", e1)
print("max rel. diff default vs center_mass:", e2)
print("max rel. diff fixed z vs center_mass:", e3)

# extra evidence: parent at rest, fixed z axis, all spin projections of the
# parent summed: a global rotation of the event must not change the density
th = 0.7
R = np.array(
    [[np.cos(th), 0, np.sin(th)], [0, 1, 0], [-np.sin(th), 0, np.cos(th)]]
)
p4_rot = [np.concatenate([i[:, :1], i[:, 1:] @ R.T], axis=1) for i in p4_rest]
d0 = density(p4_rest, random_z=False)
d1 = density(p4_rot, random_z=False)
print("parent at rest, fixed z            :", d0)
print("same events rotated about y by 0.7 :", d1)
e4 = np.max(np.abs(d1 / d0 - 1))
print("max rel. diff under global rotation:", e4)

if max(e1, e2, e3, e4) > 1e-6:
    print("VIOLATION")
    sys.exit(1)
print("no violation")
sys.exit(0)
