"""
C02 violation: self-conjugate final state (``data: cp_particles``) and
``align_ref: center_mass``.

X(1--) -> pi+ pi- J/psi with ``cp_particles: [[pip, pim]]`` (structure of
tf_pwa/tests/config_self_cp.yml), parent at rest, fixed z axis
(random_z=False, as in that test config).  The density must be the same whether
the J/psi helicity is aligned to the first chain (default) or to the parent
rest frame (align_ref: center_mass).  It differs by O(1).

Cause: with align_ref=center_mass (cal_angle.aligned_angle_ref_rule2) the
reference frame of a final particle is the *canonical* frame r^-1 B r, so the
final-state index of the amplitude is a spin projection on the fixed z axis.
DecayGroup.get_amp3 adds the CP image with this index reversed (lambda ->
-lambda), which is the parity rule for a helicity, not for a canonical spin
projection.  With the reference chosen as the helicity frame reached directly
from the parent rest frame (b_matrix = B, r_matrix = r) both references agree
(checked by monkeypatching).  Same root cause as finding_1.
"""

import copy
import sys

import numpy as np

if not hasattr(np, "Inf"):
    np.Inf = np.inf

import tensorflow as tf

from tf_pwa.config_loader import ConfigLoader
from tf_pwa.phasespace import PhaseSpaceGenerator

base = {
    "data": {
        "dat_order": ["pip", "pim", "jpsi"],
        "cp_particles": [["pip", "pim"]],
    },
    "decay": {
        "X": [["Zcp", "pim"], ["jpsi", "rho"], ["Zcm", "pip"]],
        "Zcp": ["pip", "jpsi"],
        "Zcm": ["pim", "jpsi"],
        "rho": ["pip", "pim", {"c_break": False}],
    },
    "particle": {
        "$top": {"X": {"J": 1, "P": -1, "C": -1, "mass": 4.6}},
        "$finals": {
            "pip": {"J": 0, "P": -1, "mass": 0.139},
            "pim": {"J": 0, "P": -1, "mass": 0.139},
            "jpsi": {"J": 1, "P": -1, "C": -1, "mass": 3.0},
        },
        "Zcp": {"J": 1, "P": 1, "mass": 3.9, "width": 0.05},
        "Zcm": {"J": 1, "P": 1, "mass": 3.9, "width": 0.05},
        "rho": {"J": 0, "P": 1, "C": 1, "mass": 0.9, "width": 0.3},
    },
}
names = ["pip", "pim", "jpsi"]


def boost(p, beta):
    beta = np.asarray(beta, dtype=float)
    b2 = np.sum(beta**2)
    g = 1 / np.sqrt(1 - b2)
    bp = p[:, 1:] @ beta
    sp = p[:, 1:] + ((g - 1) / b2 * bp + g * p[:, 0])[:, None] * beta
    return np.concatenate([(g * (p[:, 0] + bp))[:, None], sp], axis=1)


def density(p4, **data_opts):
    dic = copy.deepcopy(base)
    dic["data"].update(data_opts)
    config = ConfigLoader(dic)
    vm = config.get_amplitude().vm
    rng = np.random.RandomState(7)
    for k in sorted(vm.variables.keys()):  # parameters fixed by name
        v = rng.uniform(0.5, 1.5)
        if not (k.endswith("_mass") or k.endswith("_width")):
            vm.set(k, v)
    data = config.data.cal_angle(dict(zip(names, p4)))
    return config.get_amplitude()(data).numpy()


tf.random.set_seed(3)
np.random.seed(3)
p4_rest = [
    i.numpy() for i in PhaseSpaceGenerator(4.6, [0.139, 0.139, 3.0]).generate(6)
]

np.set_printoptions(precision=6, linewidth=150)
exp = density(p4_rest, random_z=False)
obs = density(p4_rest, random_z=False, align_ref="center_mass")
print("expected (default alignment)    :", exp)
print("observed (align_ref=center_mass):", obs)
e1 = np.max(np.abs(obs / exp - 1))
print("max rel. diff:", e1)

# control: without cp_particles the two references agree
del base["data"]["cp_particles"]
exp0 = density(p4_rest, random_z=False)
obs0 = density(p4_rest, random_z=False, align_ref="center_mass")
print("control without cp_particles, max rel. diff:", np.max(np.abs(obs0 / exp0 - 1)))

if e1 > 1e-6:
    print("VIOLATION")
    sys.exit(1)
print("no violation")
sys.exit(0)
