"""
C02, low severity (precision loss, sqrt(machine epsilon)): SU2M.get_euler_angle
computes beta = acos(cos beta).  When two chains share the last decay node of a
final particle (e.g. A -> (BC) (DE) and A -> ((BC) D) E both end in (BC) -> B C)
the relative rotation is a pure z rotation, beta = 0 exactly, but
acos(1 - O(1e-16)) returns O(1e-8).  The alignment D-matrix gets off-diagonal
elements ~1e-8 and the density of the two equivalent configurations (chain
order exchanged, or align_ref changed) differs by ~1e-9..1e-8 relative, i.e.
8 orders of magnitude above the 1e-16 agreement found when no chains share a
node.  Repair: beta = 2 * atan2(|x[1][0]|, |x[1][1]|).
"""
import copy
import sys

import numpy as np

if not hasattr(np, "Inf"):
    np.Inf = np.inf

import tensorflow as tf

from tf_pwa.angle import SU2M
from tf_pwa.config_loader import ConfigLoader
from tf_pwa.phasespace import PhaseSpaceGenerator

# function level: pure z rotation obtained as a product of rotations
rng = np.random.RandomState(1)
n = 2000
a, b, c, g = [tf.constant(rng.uniform(-3, 3, n)) for _ in range(4)]
r1 = SU2M.Rotation_y(b) * SU2M.Rotation_z(a)
r2 = SU2M.Rotation_z(g) * r1
R = r2 * SU2M.inv(r1)  # = Rotation_z(g) exactly
ang = R.get_euler_angle()
beta = ang["beta"].numpy()
print("beta of a pure z rotation: expected 0, observed max", beta.max())

# density level
pb = {"p_break": True}
masses = dict(B=0.94, C=0.78, D=0.5, E=0.14)
names = ["B", "C", "D", "E"]
base = {
    "data": {"dat_order": names},
    "decay": {
        "A": [["R_BCD", "E", pb], ["R_BC2", "R_DE", pb]],
        "R_BCD": [["R_BC", "D", pb]],
        "R_BC": [["B", "C", pb]],
        "R_BC2": [["B", "C", pb]],
        "R_DE": [["D", "E", pb]],
    },
    "particle": {
        "$top": {"A": {"J": 1, "P": 1, "mass": 4.0}},
        "$finals": {
            "B": {"J": "1/2", "P": 1, "mass": masses["B"]},
            "C": {"J": "1/2", "P": 1, "mass": masses["C"]},
            "D": {"J": 1, "P": 1, "mass": masses["D"]},
            "E": {"J": 0, "P": 1, "mass": masses["E"]},
        },
        "R_BCD": {"J": 1, "P": -1, "mass": 3.0, "width": 0.2},
        "R_BC": {"J": 1, "P": -1, "mass": 2.0, "width": 0.2},
        "R_BC2": {"J": 1, "P": -1, "mass": 2.1, "width": 0.2},
        "R_DE": {"J": 1, "P": -1, "mass": 0.9, "width": 0.2},
    },
}


def density(chains, p4, **opts):
    dic = copy.deepcopy(base)
    dic["decay"]["A"] = [base["decay"]["A"][i] for i in chains]
    dic["data"].update(opts)
    config = ConfigLoader(dic)
    vm = config.get_amplitude().vm
    rs = np.random.RandomState(7)
    for k in sorted(vm.variables.keys()):
        v = rs.uniform(0.5, 1.5)
        if not (k.endswith("_mass") or k.endswith("_width")):
            vm.set(k, v)
    data = config.data.cal_angle(dict(zip(names, p4)))
    return config.get_amplitude()(data).numpy()


tf.random.set_seed(3)
np.random.seed(3)
p4 = [
    i.numpy()
    for i in PhaseSpaceGenerator(4.0, [masses[k] for k in names]).generate(200)
]
d1 = density([0, 1], p4)
d2 = density([1, 0], p4)
d3 = density([0, 1], p4, align_ref="center_mass")
e1 = np.max(np.abs(d2 / d1 - 1))
e2 = np.max(np.abs(d3 / d1 - 1))
print("chain order exchanged : max rel. diff", e1)
print("align_ref=center_mass : max rel. diff", e2)
if beta.max() > 1e-10 or max(e1, e2) > 1e-10:
    print("VIOLATION (precision)")
    sys.exit(1)
print("no violation")
sys.exit(0)
