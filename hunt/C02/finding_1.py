"""
C02 violation: a massless spin-1 final-state particle (photon, ``spins: [-1, 1]``)
and ``align_ref: center_mass``.

The density must not depend on whether the final-state helicities are aligned
to the first chain (default) or to the parent rest frame (align_ref:
center_mass), nor on the choice of the z axis (random_z) / center_mass.

With ``align_ref: center_mass`` the reference frame of every final particle is
the *canonical* frame  r^-1 B r  (cal_angle.aligned_angle_ref_rule2).  The
alignment D-matrix from a helicity frame to the canonical frame is not
diagonal, and DecayChain.get_amp truncates it to the allowed helicities
``j.spins`` = (-1, 1).  The truncated matrix is not unitary, so the density
changes (even for a single chain which needs no alignment at all) and it
becomes dependent on the z-axis.

Expected value: the density of the default configuration (alignment to the
first chain).  For the single-chain model no alignment matrix enters the
default at all, so the default is the plain helicity amplitude.
"""
import copy
import sys

import numpy as np

if not hasattr(np, "Inf"):
    np.Inf = np.inf

import tensorflow as tf

from tf_pwa.config_loader import ConfigLoader
from tf_pwa.phasespace import PhaseSpaceGenerator

base = {
    "data": {"dat_order": ["G", "C", "D"]},
    "decay": {
        "A": [["R_CD", "G"], ["R_GC", "D"], ["R_GD", "C"]],
        "R_CD": ["C", "D"],
        "R_GC": ["G", "C"],
        "R_GD": ["G", "D"],
    },
    "particle": {
        "$top": {"A": {"J": 1, "P": -1, "mass": 3.1}},
        "$finals": {
            "G": {"J": 1, "P": -1, "mass": 0.0, "spins": [-1, 1]},
            "C": {"J": 0, "P": -1, "mass": 0.49},
            "D": {"J": 0, "P": -1, "mass": 0.14},
        },
        "R_CD": {"J": 2, "P": 1, "mass": 1.5, "width": 0.1},
        "R_GC": {"J": 1, "P": 1, "mass": 1.4, "width": 0.2},
        "R_GD": {"J": 1, "P": 1, "mass": 1.2, "width": 0.1},
    },
}


def boost(p, beta):
    beta = np.asarray(beta, dtype=float)
    b2 = np.sum(beta**2)
    g = 1 / np.sqrt(1 - b2)
    bp = p[:, 1:] @ beta
    sp = p[:, 1:] + ((g - 1) / b2 * bp + g * p[:, 0])[:, None] * beta
    return np.concatenate([(g * (p[:, 0] + bp))[:, None], sp], axis=1)


def params(config):
    # parameters fixed by name
    vm = config.get_amplitude().vm
    rng = np.random.RandomState(7)
    for k in sorted(vm.variables.keys()):
        v = rng.uniform(0.5, 1.5)
        if k.endswith("_mass") or k.endswith("_width"):
            continue
        vm.set(k, v)


def density(chains, p4, **data_opts):
    dic = copy.deepcopy(base)
    dic["decay"]["A"] = [base["decay"]["A"][i] for i in chains]
    used = {j for i in dic["decay"]["A"] for j in i}
    for k in list(dic["decay"]):
        if k != "A" and k not in used:
            del dic["decay"][k]
            del dic["particle"][k]
    dic["data"].update(data_opts)
    config = ConfigLoader(dic)
    params(config)
    data = config.data.cal_angle(dict(zip(["G", "C", "D"], p4)))
    return config.get_amplitude()(data).numpy()


tf.random.set_seed(3)
np.random.seed(3)
p4_rest = [
    i.numpy() for i in PhaseSpaceGenerator(3.1, [0.0, 0.49, 0.14]).generate(6)
]
p4_lab = [boost(i, [0.3, -0.2, 0.5]) for i in p4_rest]

bad = False
np.set_printoptions(precision=6, linewidth=150)

print("== single chain A->R_CD G (no alignment needed)")
exp = density([0], p4_lab)
obs = density([0], p4_lab, align_ref="center_mass")
print("expected (default)           :", exp)
print("observed (align_ref=center_mass):", obs)
err1 = np.max(np.abs(obs / exp - 1))
print("max rel. diff:", err1)

print("== three chains, default vs center_mass reference")
exp3 = density([0, 1, 2], p4_lab)
exp3b = density([2, 1, 0], p4_lab, random_z=False, center_mass=True)
obs3 = density([0, 1, 2], p4_lab, align_ref="center_mass")
print("expected (default)                    :", exp3)
print("default, permuted chains, other z axis:", exp3b)
print("observed (align_ref=center_mass)      :", obs3)
err2 = np.max(np.abs(obs3 / exp3 - 1))
print("max rel. diff:", err2, " (default self-consistency:",
      np.max(np.abs(exp3b / exp3 - 1)), ")")

print("== center_mass reference: z axis along the parent vs fixed z axis")
obs_z1 = density([0, 1, 2], p4_lab, align_ref="center_mass", random_z=True)
obs_z2 = density([0, 1, 2], p4_lab, align_ref="center_mass", random_z=False)
print("random_z=True :", obs_z1)
print("random_z=False:", obs_z2)
err3 = np.max(np.abs(obs_z1 / obs_z2 - 1))
print("max rel. diff:", err3)

if max(err1, err2, err3) > 1e-6:
    print("VIOLATION")
    sys.exit(1)
print("no violation")
sys.exit(0)
