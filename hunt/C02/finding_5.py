"""
C02 violation in the DEFAULT alignment setting: identical particles plus a
photon (``spins: [-1, 1]``, massless), e.g. J/psi -> gamma pi0 pi0.

With ``data: identical_particles`` cal_angle_from_particle always takes
aligned_angle_ref_rule2 (canonical reference frame r^-1 B r) - no align_ref
needs to be given.  The alignment D-matrix of the photon is then truncated to
the helicities (-1, 1) in DecayChain.get_amp and is not unitary.  Result: the
density depends on the choice of the z axis (random_z) and on center_mass, and
is wrong even for one single chain.

Independent reference for the single chain A -> f2 gamma, f2 -> pi0 pi0: the
chain amplitude is symmetric under the exchange of the two pi0, so the
symmetrised amplitude is exactly twice the plain one and the density is 4 x
the density of the same model without ``identical_particles`` (which needs no
alignment at all).
"""
import copy
import sys

import numpy as np

if not hasattr(np, "Inf"):
    np.Inf = np.inf

import tensorflow as tf

from tf_pwa.config_loader import ConfigLoader
from tf_pwa.phasespace import PhaseSpaceGenerator

names = ["G", "P1", "P2"]
base = {
    "data": {"dat_order": names, "identical_particles": [["P1", "P2"]]},
    "decay": {
        "A": [["R_PP", "G"], ["R_GP", "P2"]],
        "R_PP": ["P1", "P2"],
        "R_GP": ["G", "P1"],
    },
    "particle": {
        "$top": {"A": {"J": 1, "P": -1, "mass": 3.1}},
        "$finals": {
            "G": {"J": 1, "P": -1, "mass": 0.0, "spins": [-1, 1]},
            "P1": {"J": 0, "P": -1, "mass": 0.135},
            "P2": {"J": 0, "P": -1, "mass": 0.135},
        },
        "R_PP": {"J": 2, "P": 1, "mass": 1.27, "width": 0.18},
        "R_GP": {"J": 1, "P": -1, "mass": 0.78, "width": 0.1},
    },
}


def boost(p, beta):
    beta = np.asarray(beta, dtype=float)
    b2 = np.sum(beta**2)
    g = 1 / np.sqrt(1 - b2)
    bp = p[:, 1:] @ beta
    sp = p[:, 1:] + ((g - 1) / b2 * bp + g * p[:, 0])[:, None] * beta
    return np.concatenate([(g * (p[:, 0] + bp))[:, None], sp], axis=1)


def density(chains, p4, identical=True, **data_opts):
    dic = copy.deepcopy(base)
    dic["decay"]["A"] = [base["decay"]["A"][i] for i in chains]
    if 1 not in chains:
        del dic["decay"]["R_GP"]
        del dic["particle"]["R_GP"]
    if not identical:
        del dic["data"]["identical_particles"]
    dic["data"].update(data_opts)
    config = ConfigLoader(dic)
    vm = config.get_amplitude().vm
    rng = np.random.RandomState(7)
    for k in sorted(vm.variables.keys()):  # parameters fixed by name
        v = rng.uniform(0.5, 1.5)
        if not (k.endswith("_mass") or k.endswith("_width")):
            vm.set(k, v)
    data = config.data.cal_angle(dict(zip(names, p4)))
    return config.get_amplitude()(data).numpy()


tf.random.set_seed(3)
np.random.seed(3)
p4_rest = [
    i.numpy() for i in PhaseSpaceGenerator(3.1, [0.0, 0.135, 0.135]).generate(6)
]
p4_lab = [boost(i, [0.3, -0.2, 0.5]) for i in p4_rest]
np.set_printoptions(precision=6, linewidth=150)

print("== single chain A -> f2 gamma, f2 -> pi0 pi0")
exp = 4 * density([0], p4_lab, identical=False)
obs = density([0], p4_lab)
obs_z = density([0], p4_lab, random_z=False)
print("expected 4 x non-identical:", exp)
print("observed (default)        :", obs)
print("observed (random_z=False) :", obs_z)
e1 = np.max(np.abs(obs / exp - 1))
e2 = np.max(np.abs(obs_z / exp - 1))
print("max rel. diff:", e1, e2)

print("== two chains, default alignment, choice of z axis / center_mass")
a = density([0, 1], p4_lab)
b = density([0, 1], p4_lab, random_z=False)
c = density([1, 0], p4_lab, center_mass=True)
print("default (z along parent):", a)
print("random_z=False          :", b)
print("center_mass=True        :", c)
e3 = np.max(np.abs(a / b - 1))
e4 = np.max(np.abs(a / c - 1))
print("max rel. diff:", e3, e4)

if max(e1, e2, e3, e4) > 1e-6:
    print("VIOLATION")
    sys.exit(1)
print("no violation")
sys.exit(0)
