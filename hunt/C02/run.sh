#!/bin/bash
cd /tmp/hunt2_C02
PYTHONHASHSEED=0 CUDA_VISIBLE_DEVICES= TF_CPP_MIN_LOG_LEVEL=3 PYTHONPATH=/tmp/hunt2_C02 /venv/bin/python -W ignore "$@" 2>&1 | grep -v -e "^I0000" -e "^WARNING: All" -e "^E0000" -e "^W0000"
exit ${PIPESTATUS[0]}
