"""
C02 violation (literal statement: "the density of every event is the same
whatever order the decay chains are declared in"): the order of a resonance
list changes the density, all parameters equal by name.

A(1/2) -> X E,  X(2+) -> R_BC D,  R_BC -> B C,  with  R_BC: [Y1, Y2]  versus
R_BC: [Y2, Y1]  (Y1: 3/2-, Y2: 1/2+; B, D, E spin 1/2, C spin 1).  The two
configurations declare the same two chains in a different order.

Cause (not the alignment): Particle.get_amp (tf_pwa/amp/core.py, also the
models in tf_pwa/amp/base.py) takes the orbital angular momentum of the running
width from the *first declared* decay of the resonance,
    self.bw_l = min(self.decay[0].get_l_list())
(and caches it), while |q| and |q0| come from the decay of the chain that is
evaluated.  X -> Y1 D has l_min = 0, X -> Y2 D has l_min = 1, so the propagator
of X in *both* chains changes with the order of the list.
Expected value: the density of the configuration with the list reversed.
"""
import copy
import sys

import numpy as np

if not hasattr(np, "Inf"):
    np.Inf = np.inf

import tensorflow as tf

from tf_pwa.config_loader import ConfigLoader
from tf_pwa.phasespace import PhaseSpaceGenerator

pb = {"p_break": True}
masses = dict(B=0.94, C=0.78, D=0.5, E=0.14)
names = ["B", "C", "D", "E"]
base = {
    "data": {"dat_order": names},
    "decay": {
        "A": [["X", "E", pb]],
        "X": [["R_BC", "D", pb]],
        "R_BC": [["B", "C", pb]],
    },
    "particle": {
        "$top": {"A": {"J": "1/2", "P": 1, "mass": 4.0}},
        "$finals": {
            "B": {"J": "1/2", "P": 1, "mass": masses["B"]},
            "C": {"J": 1, "P": 1, "mass": masses["C"]},
            "D": {"J": "1/2", "P": 1, "mass": masses["D"]},
            "E": {"J": "1/2", "P": 1, "mass": masses["E"]},
        },
        "X": {"J": 2, "P": 1, "mass": 3.2, "width": 0.3},
        "R_BC": ["Y1", "Y2"],
        "Y1": {"J": "3/2", "P": -1, "mass": 2.0, "width": 0.2},
        "Y2": {"J": "1/2", "P": 1, "mass": 2.2, "width": 0.2},
    },
}


def density(order, p4):
    dic = copy.deepcopy(base)
    dic["particle"]["R_BC"] = list(order)
    config = ConfigLoader(dic)
    amp = config.get_amplitude()
    vm = amp.vm
    rng = np.random.RandomState(7)
    for k in sorted(vm.variables.keys()):  # parameters fixed by name
        v = rng.uniform(0.5, 1.5)
        if not (k.endswith("_mass") or k.endswith("_width")):
            vm.set(k, v)
    data = config.data.cal_angle(dict(zip(names, p4)))
    ret = amp(data).numpy()
    return ret, config.get_params(), [str(i) for i in amp.decay_group]


tf.random.set_seed(3)
np.random.seed(3)
p4 = [
    i.numpy()
    for i in PhaseSpaceGenerator(4.0, [masses[k] for k in names]).generate(6)
]
np.set_printoptions(precision=6, linewidth=150)
d1, par1, ch1 = density(["Y1", "Y2"], p4)
d2, par2, ch2 = density(["Y2", "Y1"], p4)
print("chains 1:", ch1)
print("chains 2:", ch2)
assert sorted(ch1) == sorted(ch2)
assert par1.keys() == par2.keys()
assert all(abs(par1[k] - par2[k]) < 1e-14 for k in par1), "parameters differ"
print("R_BC: [Y1, Y2] :", d1)
print("R_BC: [Y2, Y1] :", d2)
err = np.max(np.abs(d1 / d2 - 1))
print("max rel. diff:", err)
if err > 1e-6:
    print("VIOLATION")
    sys.exit(1)
print("no violation")
sys.exit(0)
