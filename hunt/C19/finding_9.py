"""C19 finding 9: with two `$include` files and a mix of the documented aliases
(m0/mass, g0/width), a value written in the main config no longer overrides the
included one: the dict merge keeps the key position of the later include, and the
alias that is renamed last wins."""
import contextlib, io, sys
import numpy as np
np.Inf = np.inf
np.random.seed(0)
from tf_pwa.config_loader import ConfigLoader

share = {
    "res1.yml": {"Zc1": {"J": 1, "Par": 1, "m0": 3.0, "g0": 0.05}},   # alias spelling
    "res2.yml": {"Zc1": {"mass": 9.0}, "D1": {"J": 1, "P": 1, "mass": 2.4, "width": 0.03}},
}


def config(include, zc1):
    return {
        "data": {"dat_order": ["B", "C", "D"]},
        "decay": {"A": [["R_BC", "D"], ["R_BD", "C"]], "R_BC": ["B", "C"], "R_BD": ["B", "D"]},
        "particle": {
            "$top": {"A": {"J": 1, "P": -1, "mass": 4.6}},
            "$finals": {
                "B": {"J": 1, "P": -1, "mass": 2.1},
                "C": {"J": 1, "P": -1, "mass": 1.8},
                "D": {"J": 0, "P": -1, "mass": 0.1},
            },
            "$include": include,
            "R_BC": ["Zc1"],
            "R_BD": ["D1"],
            "Zc1": zc1,
        },
    }


def zc1_mass(cfg):
    with contextlib.redirect_stdout(io.StringIO()):
        c = ConfigLoader(cfg, share_dict=share)
        amp = c.get_amplitude()
    return float(amp.get_params()["Zc1_mass"]), c.particle_property["Zc1"]


m1, p1 = zc1_mass(config(["res1.yml", "res2.yml"], {"mass": 4.0}))
print("main config: Zc1: {mass: 4.0}; includes res1 (m0: 3.0), res2 (mass: 9.0)")
print("merged Zc1 entry:", p1)
print("Zc1_mass: observed", m1, " expected 4.0 (the main config overrides the includes)")
# expanded form
exp = config([], {"J": 1, "P": 1, "mass": 4.0, "width": 0.05})
del exp["particle"]["$include"]
exp["particle"]["D1"] = share["res2.yml"]["D1"]
m2, _ = zc1_mass(exp)
print("expanded form Zc1_mass:", m2)
if abs(m1 - m2) > 1e-12:
    print("VIOLATION")
    sys.exit(1)
print("ok")
