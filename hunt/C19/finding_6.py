"""C19 finding 6: when one resonance is a candidate of two slots that decay to
the same daughters, the per-decay options / daughter order of the two slot
declarations are mixed: the options of the LAST declaration in the `decay` dict
are applied to every chain (also the chains of the other slot), the daughter
order of the FIRST one.  Permuting the keys of the `decay` dict therefore changes
the LS couplings, the parameter names and even which chains survive."""
import contextlib, io, sys, copy
import numpy as np
np.Inf = np.inf
np.random.seed(0)
from tf_pwa.config_loader import ConfigLoader

decay_items = [
    ("A", [["X", "E", {"p_break": True}], ["Y", "Z", {"p_break": True}]]),
    ("X", [["R_BC", "D"]]),
    ("R_BC", ["B", "C", {"l_list": [0]}]),   # K1 -> B C produced in X -> K1 D: S wave only
    ("Y", ["C", "B"]),                        # K1 -> C B produced in A -> K1 Z1: no restriction
    ("Z", ["D", "E"]),
]
particle = {
    "$top": {"A": {"J": 0, "P": -1, "mass": 5.3}},
    "$finals": {
        "B": {"J": 1, "P": -1, "mass": 1.0},
        "C": {"J": 0, "P": -1, "mass": 0.5},
        "D": {"J": 0, "P": -1, "mass": 0.14},
        "E": {"J": 0, "P": -1, "mass": 0.14},
    },
    "X": ["X1"], "R_BC": ["K1"], "Y": ["K1"], "Z": ["Z1"],
    "X1": {"J": 1, "P": 1, "mass": 3.0, "width": 0.2},
    "K1": {"J": 1, "P": 1, "mass": 1.8, "width": 0.1},
    "Z1": {"J": 1, "P": -1, "mass": 0.77, "width": 0.15},
}


def load(order):
    cfg = {
        "data": {"dat_order": ["B", "C", "D", "E"]},
        "decay": {decay_items[i][0]: copy.deepcopy(decay_items[i][1]) for i in order},
        "particle": copy.deepcopy(particle),
        "constrains": {"decay": {"fix_chain_idx": 0, "fix_chain_val": 1.0}},
    }
    with contextlib.redirect_stdout(io.StringIO()):
        c = ConfigLoader(cfg)
        amp = c.get_amplitude()
    ls = {}
    for ch in c.get_decay():
        for d in ch:
            if str(d.core) == "K1":
                ls[str(ch)] = (str(d), d.get_ls_list())
    return sorted(amp.get_params()), ls


n1, ls1 = load([0, 1, 2, 3, 4])
n2, ls2 = load([0, 1, 3, 2, 4])  # keys R_BC and Y swapped
print("decay keys ... R_BC, Y ...:")
for k, v in ls1.items():
    print("   ", k, "K1 decay", v)
print("decay keys ... Y, R_BC ...:")
for k, v in ls2.items():
    print("   ", k, "K1 decay", v)
print("expected: identical models; in the X chain K1->B+C restricted to l=0, in the A->K1 Z1 chain unrestricted")
print("parameter names identical:", n1 == n2)
print("only in first :", sorted(set(n1) - set(n2)))
print("only in second:", sorted(set(n2) - set(n1)))
if n1 != n2:
    print("VIOLATION")
    sys.exit(1)
print("ok")
