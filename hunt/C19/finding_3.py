"""C19 finding 3: the `coef_head` constraint of a resonance is silently dropped
when the chain of the head resonance comes after the chain that refers to it.
Permuting a candidate list therefore changes the set of free parameters."""
import contextlib, io, sys
import numpy as np
np.Inf = np.inf
np.random.seed(0)
from tf_pwa.config_loader import ConfigLoader


def config(order):
    return {
        "data": {"dat_order": ["B", "C", "D"]},
        "decay": {"A": [["R_BD", "C"]], "R_BD": ["B", "D"]},
        "particle": {
            "$top": {"A": {"J": 1, "P": -1, "mass": 4.6}},
            "$finals": {
                "B": {"J": 1, "P": -1, "mass": 2.1},
                "C": {"J": 1, "P": -1, "mass": 1.8},
                "D": {"J": 0, "P": -1, "mass": 0.1},
            },
            "R_BD": order,
            "D1": {"J": 1, "P": 1, "mass": 2.40, "width": 0.03},
            "D1p": {"J": 1, "P": 1, "mass": 2.41, "width": 0.03, "coef_head": "D1"},
        },
        "constrains": {"decay": {"fix_chain_idx": "D1", "fix_chain_val": 1.0}},
    }


def free_pars(order):
    with contextlib.redirect_stdout(io.StringIO()):
        c = ConfigLoader(config(order))
        amp = c.get_amplitude()
    return set(amp.vm.trainable_vars)


a = free_pars(["D1", "D1p"])
b = free_pars(["D1p", "D1"])
print("R_BD: [D1, D1p] -> number of free parameters:", len(a))
print("R_BD: [D1p, D1] -> number of free parameters:", len(b), "(expected", len(a), ")")
print("extra free parameters:", sorted(b - a))
if a != b:
    print("VIOLATION")
    sys.exit(1)
print("ok")
