"""C19 finding 4: constrains.decay.decay_d is applied through zip() against the
decays of each chain, so it is silently truncated:
 (a) a dict {resonance: d} with fewer keys than decays in a chain never reaches
     the later decays (a one-key dict is ignored completely);
 (b) a scalar d is expanded to the length of the FIRST chain, so with a direct
     three-body mode listed first the resonance decays keep the default d=3."""
import contextlib, io, sys
import numpy as np
np.Inf = np.inf
np.random.seed(0)
from tf_pwa.config_loader import ConfigLoader


def config(decay_d, nr_first=None):
    modes = [["R_BC", "D"]]
    if nr_first is True:
        modes = [["B", "C", "D"]] + modes
    if nr_first is False:
        modes = modes + [["B", "C", "D"]]
    return {
        "data": {"dat_order": ["B", "C", "D"]},
        "decay": {"A": modes, "R_BC": ["B", "C"]},
        "particle": {
            "$top": {"A": {"J": 1, "P": -1, "mass": 4.6}},
            "$finals": {
                "B": {"J": 1, "P": -1, "mass": 2.1},
                "C": {"J": 1, "P": -1, "mass": 1.8},
                "D": {"J": 0, "P": -1, "mass": 0.1},
            },
            "R_BC": ["Zc1"],
            "Zc1": {"J": 1, "P": 1, "mass": 4.0, "width": 0.05},
        },
        "constrains": {"decay": {"fix_chain_idx": 0, "fix_chain_val": 1.0, "decay_d": decay_d}},
    }


def get_d(cfg):
    with contextlib.redirect_stdout(io.StringIO()):
        c = ConfigLoader(cfg)
        amp = c.get_amplitude()
    out = {}
    for ch in amp.decay_group:
        for d in ch:
            if hasattr(d, "d"):
                out[str(d)] = d.d
    out["Zc1(particle)"] = c.get_decay().get_particle("Zc1").d
    return out


bad = False
r = get_d(config({"Zc1": 5.0}))
print("decay_d: {Zc1: 5.0}          ->", r, " expected Zc1->B+C and Zc1 d = 5.0")
bad |= r["Zc1->B+C"] != 5.0
r = get_d(config({"Zc1": 5.0, "A": 3.0}))
print("decay_d: {Zc1: 5.0, A: 3.0}  ->", r, " (two keys: applied)")
r1 = get_d(config(5.0, nr_first=False))
r2 = get_d(config(5.0, nr_first=True))
print("decay_d: 5.0, A: [[R_BC,D],[B,C,D]] ->", r1)
print("decay_d: 5.0, A: [[B,C,D],[R_BC,D]] ->", r2, " expected the same values")
bad |= r1 != r2
if bad:
    print("VIOLATION")
    sys.exit(1)
print("ok")
