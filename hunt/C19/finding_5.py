"""C19 finding 5: when the same resonance is a candidate of both daughter slots
of one decay (A -> Y Z, Y -> K1 p1, Z -> K2 p2, Kst in Y and in Z), the loader
builds the chain twice (daughters swapped), each copy with its own free `total`
factor, although only one chain A -> Kst Kst is declared.  The two copies give
identical intensities event by event."""
import contextlib, io, sys, itertools
import numpy as np
np.Inf = np.inf
np.random.seed(0)
import tensorflow as tf
tf.random.set_seed(0)
from tf_pwa.config_loader import ConfigLoader

cand = {"Y": ["Kst", "K0st"], "Z": ["Kst", "K0st"]}
cfg = {
    "data": {"dat_order": ["K1", "p1", "K2", "p2"]},
    "decay": {"A": [["Y", "Z", {"p_break": True}]], "Y": ["K1", "p1"], "Z": ["K2", "p2"]},
    "particle": {
        "$top": {"A": {"J": 0, "P": -1, "mass": 5.3}},
        "$finals": {
            "K1": {"J": 0, "P": -1, "mass": 0.5},
            "p1": {"J": 0, "P": -1, "mass": 0.14},
            "K2": {"J": 0, "P": -1, "mass": 0.5},
            "p2": {"J": 0, "P": -1, "mass": 0.14},
        },
        **cand,
        "Kst": {"J": 1, "P": -1, "mass": 0.89, "width": 0.05},
        "K0st": {"J": 0, "P": 1, "mass": 1.43, "width": 0.27},
    },
    "constrains": {"decay": {"fix_chain_idx": 0, "fix_chain_val": 1.0}},
}
with contextlib.redirect_stdout(io.StringIO()):
    c = ConfigLoader(cfg)
    amp = c.get_amplitude()
chains = [str(i) for i in c.get_decay()]
expected = len(list(itertools.product(cand["Y"], cand["Z"])))  # all allowed by p_break / spins
print("declared: A -> Y Z with Y in", cand["Y"], "and Z in", cand["Z"])
for i in chains:
    print("   ", i)
print("number of chains: observed", len(chains), " expected", expected)
n_total = len([k for k in amp.get_params() if k.endswith("total_0r")])
print("number of chain `total` factors: observed", n_total, " expected", expected)

# the two Kst Kst copies are the same amplitude
ph = c.generate_phsp_p(20)
data = c.data.cal_angle([ph[i] for i in c.get_dat_order()])
dg = amp.decay_group
idx = [k for k, ch in enumerate(dg.chains) if str(ch).startswith("[A->Kst+Kst:1")]
par = {k: (1.0 if k.endswith("r") else 0.0) for k in amp.get_params() if "total" in k or "g_ls" in k}
amp.set_params(par)
vals = []
for k in idx:
    dg.set_used_chains([k])
    vals.append(amp(data).numpy())
dg.set_used_chains(list(range(len(dg.chains))))
print("Kst Kst copies:", [str(dg.chains[k]) for k in idx])
print("max |ratio-1| of their intensities:", float(np.max(np.abs(vals[0] / vals[1] - 1))) if len(vals) == 2 else None)
if len(chains) != expected:
    print("VIOLATION")
    sys.exit(1)
print("ok")
