"""C19 finding 8 (documentation vs behaviour): config.sample.yml states that
without data.dat_order "the `finals` in `particle` will be used by default".
The loader uses the alphabetically sorted final-state names instead, so momenta
passed/read in the declared `$finals` order are silently assigned to the wrong
particles."""
import contextlib, io, sys, copy
import numpy as np
np.Inf = np.inf
np.random.seed(0)
import tensorflow as tf
tf.random.set_seed(0)
from tf_pwa.config_loader import ConfigLoader

cfg = {
    "data": {},
    "decay": {"A": [["R_BC", "D"], ["R_BD", "C"]], "R_BC": ["B", "C"], "R_BD": ["B", "D"]},
    "particle": {
        "$top": {"A": {"J": 1, "P": -1, "mass": 4.6}},
        "$finals": {   # declared order: D, C, B
            "D": {"J": 0, "P": -1, "mass": 0.1},
            "C": {"J": 1, "P": -1, "mass": 1.8},
            "B": {"J": 1, "P": -1, "mass": 2.1},
        },
        "R_BC": ["Zc1"],
        "R_BD": ["D1"],
        "Zc1": {"J": 1, "P": 1, "mass": 4.0, "width": 0.05},
        "D1": {"J": 1, "P": 1, "mass": 2.4, "width": 0.03},
    },
    "constrains": {"decay": {"fix_chain_idx": 0, "fix_chain_val": 1.0}},
}
with contextlib.redirect_stdout(io.StringIO()):
    c = ConfigLoader(cfg)
    amp = c.get_amplitude()
    cfg2 = copy.deepcopy(cfg)
    cfg2["data"]["dat_order"] = ["D", "C", "B"]
    c2 = ConfigLoader(cfg2)
    amp2 = c2.get_amplitude()
amp2.set_params({k: float(v) for k, v in amp.get_params().items()})
order = [str(i) for i in c.get_dat_order()]
print("declared $finals order: ['D', 'C', 'B']")
print("default dat order: observed", order, " expected ['D', 'C', 'B']")
ph = c.generate_phsp_p(5)
p = {str(k): v for k, v in ph.items()}
pD, pC, pB = p["D"], p["C"], p["B"]
v_default = c.eval_amplitude(pD, pC, pB).numpy()
v_explicit = c2.eval_amplitude(pD, pC, pB).numpy()
print("|A|^2 with momenta given in $finals order, default dat_order :", v_default[:3])
print("|A|^2 with momenta given in $finals order, dat_order=[D,C,B]:", v_explicit[:3])
if order != ["D", "C", "B"]:
    print("VIOLATION")
    sys.exit(1)
print("ok")
