"""C19 finding 7: the particle option `params_head` is accepted by
tf_pwa.amp.core.Particle.__init__ but thrown away (`self.params_head = None`),
so a resonance that asks to use another parameter-name head keeps its own
independent parameters.  (The same option works on decays.)"""
import contextlib, io, sys
import numpy as np
np.Inf = np.inf
np.random.seed(0)
from tf_pwa.config_loader import ConfigLoader

cfg = {
    "data": {"dat_order": ["B", "C", "D"]},
    "decay": {"A": [["R_BC", "D"], ["R_BD", "C"]], "R_BC": ["B", "C"], "R_BD": ["B", "D"]},
    "particle": {
        "$top": {"A": {"J": 1, "P": -1, "mass": 4.6}},
        "$finals": {
            "B": {"J": 1, "P": -1, "mass": 2.1},
            "C": {"J": 1, "P": -1, "mass": 1.8},
            "D": {"J": 0, "P": -1, "mass": 0.1},
        },
        "R_BC": ["Zc"],
        "R_BD": ["Dst"],
        "Zc": {"J": 1, "P": 1, "mass": 4.0, "width": 0.05, "params_head": "Zc4025"},
        "Dst": {"J": 1, "P": 1, "mass": 2.4, "width": 0.03},
    },
}
with contextlib.redirect_stdout(io.StringIO()):
    c = ConfigLoader(cfg)
    amp = c.get_amplitude()
zc = c.get_decay().get_particle("Zc")
names = sorted(amp.get_params())
print("Zc.params_head: observed", repr(zc.params_head), " expected 'Zc4025'")
print("mass parameter of Zc: observed", [k for k in names if k.endswith("_mass") and "Z" in k], " expected ['Zc4025_mass']")
if "Zc4025_mass" not in names:
    print("VIOLATION")
    sys.exit(1)
print("ok")
