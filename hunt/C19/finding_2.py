"""C19 finding 2: DecayGroup.as_config() exports the live Variable objects of
mass/width once the amplitude has been built (Particle.init_params overwrites
Particle.mass/width with Variables).  Loading that export gives a model whose
resonance masses/widths are not parameters of the new model any more (they are
deep copies tied to a copied VarsManager).  The same root cause makes
ConfigLoader.get_amplitude(vm=other_vm) lose the mass/width parameters."""
import contextlib, io, sys
import numpy as np
np.Inf = np.inf
np.random.seed(0)
from tf_pwa.config_loader import ConfigLoader
from tf_pwa.variable import VarsManager

cfg = {
    "data": {"dat_order": ["B", "C", "D"]},
    "decay": {"A": [["R_BC", "D"], ["R_BD", "C"]], "R_BC": ["B", "C"], "R_BD": ["B", "D"]},
    "particle": {
        "$top": {"A": {"J": 1, "P": -1, "mass": 4.6}},
        "$finals": {
            "B": {"J": 1, "P": -1, "mass": 2.1},
            "C": {"J": 1, "P": -1, "mass": 1.8},
            "D": {"J": 0, "P": -1, "mass": 0.1},
        },
        "R_BC": ["Zc1"],
        "R_BD": ["D1"],
        "Zc1": {"J": 1, "P": 1, "mass": 4.0, "width": 0.05},
        "D1": {"J": 1, "P": 1, "mass": 2.4, "width": 0.03},
    },
}


def load(c):
    with contextlib.redirect_stdout(io.StringIO()):
        conf = ConfigLoader(c)
        amp = conf.get_amplitude()
    return conf, amp


bad = False
# (a) export before the amplitude is built: fine
conf0 = ConfigLoader(cfg)
exp_before = conf0.get_decay().as_config()
_, amp_b = load(exp_before)

conf, amp = load(cfg)
names = sorted(amp.get_params())
exp_after = conf.get_decay().as_config()
print("exported Zc1 mass (expected 4.0):", repr(exp_after["particle"]["Zc1"]["mass"]),
      type(exp_after["particle"]["Zc1"]["mass"]).__name__)
conf2, amp2 = load(exp_after)
names2 = sorted(amp2.get_params())
print("parameter names, export before build == original:", sorted(amp_b.get_params()) == names)
print("parameter names, export after  build == original:", names2 == names)
print("missing after reload (expected none):", sorted(set(names) - set(names2)))
zc = conf2.get_decay().get_particle("Zc1")
print("reloaded Zc1.mass belongs to the reloaded model's VarsManager (expected True):",
      getattr(zc.mass, "vm", None) is amp2.vm)
if names2 != names:
    bad = True

# (b) same configuration object, second VarsManager
with contextlib.redirect_stdout(io.StringIO()):
    amp_vm2 = conf.get_amplitude(vm=VarsManager())
names_vm2 = sorted(amp_vm2.get_params())
print("get_amplitude(vm=new): missing parameters (expected none):", sorted(set(names) - set(names_vm2)))
if names_vm2 != names:
    bad = True
if bad:
    print("VIOLATION")
    sys.exit(1)
print("ok")
