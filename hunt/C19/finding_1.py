"""C19 finding 1: a chain removed by the spin-parity cut leaves a phantom decay
behind in Particle.decay, which changes the running-width L (bw_l) of a
surviving chain.  Listing a forbidden candidate must give the same model as
not listing it."""
import contextlib, io, sys
import numpy as np
np.Inf = np.inf
import tensorflow as tf
from tf_pwa.config_loader import ConfigLoader


def config(with_forbidden):
    cfg = {
        "data": {"dat_order": ["B", "C", "D", "E"]},
        "decay": {
            "A": [["X1", "E", {"p_break": True}]],
            "X1": [["R_BC", "D"], ["D1", "C"]] if with_forbidden else [["D1", "C"]],
            "D1": ["B", "D"],
        },
        "particle": {
            "$top": {"A": {"J": 0, "P": -1, "mass": 5.3}},
            "$finals": {
                "B": {"J": 1, "P": -1, "mass": 1.0},
                "C": {"J": 0, "P": -1, "mass": 0.5},
                "D": {"J": 0, "P": -1, "mass": 0.14},
                "E": {"J": 0, "P": -1, "mass": 0.14},
            },
            "X1": {"J": 1, "P": 1, "mass": 3.0, "width": 0.2},
            "D1": {"J": 1, "P": -1, "mass": 1.4, "width": 0.1},
        },
        "constrains": {"decay": {"fix_chain_idx": 0, "fix_chain_val": 1.0}},
    }
    if with_forbidden:
        cfg["decay"]["R_BC"] = ["B", "C"]
        cfg["particle"]["R_BC"] = ["K2"]
        # X1(1+) -> K2(0+) D(0-) is allowed (l=1); K2(0+) -> B(1-) C(0-) is forbidden
        cfg["particle"]["K2"] = {"J": 0, "P": 1, "mass": 1.9, "width": 0.1}
    return cfg


def load(cfg):
    with contextlib.redirect_stdout(io.StringIO()):
        c = ConfigLoader(cfg)
        amp = c.get_amplitude()
    return c, amp


np.random.seed(0)
tf.random.set_seed(0)
c_ref, a_ref = load(config(False))
c_bug, a_bug = load(config(True))
ch_ref = [str(i) for i in c_ref.get_decay()]
ch_bug = [str(i) for i in c_bug.get_decay()]
print("chains without forbidden candidate:", ch_ref)
print("chains with    forbidden candidate:", ch_bug)
assert ch_ref == ch_bug
assert sorted(a_ref.get_params()) == sorted(a_bug.get_params())

np.random.seed(0)
tf.random.set_seed(0)
ph = c_ref.generate_phsp_p(50)
p4 = [ph[i] for i in c_ref.get_dat_order()]
params = {k: float(v) for k, v in a_ref.get_params().items()}
a_bug.set_params(params)
v_ref = c_ref.eval_amplitude(*p4).numpy()
v_bug = c_bug.eval_amplitude(*p4).numpy()
x_ref = c_ref.get_decay().get_particle("X1")
x_bug = c_bug.get_decay().get_particle("X1")
rel = float(np.max(np.abs(v_bug / v_ref - 1)))
print("X1.decay  expected:", x_ref.decay, " observed:", x_bug.decay)
print("X1.bw_l   expected:", x_ref.bw_l, " observed:", x_bug.bw_l)
print("|A|^2 first events expected:", v_ref[:3])
print("|A|^2 first events observed:", v_bug[:3])
print("max relative difference of |A|^2 (expected 0):", rel)
if rel > 1e-7 or x_ref.bw_l != x_bug.bw_l:
    print("VIOLATION")
    sys.exit(1)
print("ok")
