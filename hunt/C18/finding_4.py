"""C18 finding 4: the on-disk cache of a lazy data set (data: cached_lazy_call)
is keyed by '<dir>/s<group><idx>_<batch>' only.  A second configuration (or a
later run) that points to another data file but the same cache directory gets
the FIRST sample back, silently."""
import sys, os, shutil, copy, tempfile
import numpy as np
np.Inf = np.inf
import tensorflow as tf
import yaml
from tf_pwa.config_loader import ConfigLoader
from tf_pwa.phasespace import PhaseSpaceGenerator
from tf_pwa.data import batch_call, data_to_numpy

BASE = yaml.safe_load("""
data: {dat_order: [B, C, D]}
decay:
  A: [[R_BC, D], [R_BD, C], [R_CD, B]]
  R_BC: [B, C]
  R_BD: [B, D]
  R_CD: [C, D]
particle:
  $top: {A: {J: 1, P: -1, spins: [-1, 1], mass: 4.6}}
  $finals:
    B: {J: 1, P: -1, mass: 2.00698}
    C: {J: 1, P: -1, mass: 2.01028}
    D: {J: 0, P: -1, mass: 0.13957}
  R_BC: {J: 1, Par: 1, m0: 4.16, g0: 0.1}
  R_BD: {J: 1, Par: 1, m0: 2.43, g0: 0.3}
  R_CD: {J: 1, Par: 1, m0: 2.42, g0: 0.03}
""")

def gen(n, seed, fname):
    tf.random.set_seed(seed); np.random.seed(seed)
    p = PhaseSpaceGenerator(4.6, [2.00698, 2.01028, 0.13957]).generate(n)
    np.savetxt(fname, np.stack([np.array(i) for i in p]).transpose((1, 0, 2)).reshape((-1, 4)))

def cfg(**kw):
    c = copy.deepcopy(BASE); c["data"].update(kw); return ConfigLoader(c)

tmp = tempfile.mkdtemp()
f1, f2, cache = tmp + "/run1.dat", tmp + "/run2.dat", tmp + "/cache/"
gen(23, 1, f1); gen(23, 2, f2)
mBC = lambda d: d["particle"]
def m_bc(d):
    for k, v in d["particle"].items():
        if str(k) == "(B, C)":
            return v["m"]
eager2 = data_to_numpy(m_bc(cfg(data=[f2]).get_data("data")[0]))
eager1 = data_to_numpy(m_bc(cfg(data=[f1]).get_data("data")[0]))
l1 = cfg(data=[f1], lazy_call=True, cached_lazy_call=cache).get_data("data")[0]
r1 = data_to_numpy(batch_call(m_bc, l1, 10))
l2 = cfg(data=[f2], lazy_call=True, cached_lazy_call=cache).get_data("data")[0]
r2 = data_to_numpy(batch_call(m_bc, l2, 10))
print("cache files:", sorted(os.listdir(cache)))
print("config 1 lazy vs eager(run1): max|dm| =", np.abs(r1 - eager1).max())
print("config 2 lazy vs eager(run2): max|dm| =", np.abs(r2 - eager2).max(), "(expected ~0)")
print("config 2 lazy vs eager(run1): max|dm| =", np.abs(r2 - eager1).max(), "(0 means it returned the run1 sample)")
bad = np.abs(r2 - eager2).max() > 1e-9
shutil.rmtree(tmp, ignore_errors=True)
if bad:
    print("VIOLATION")
    sys.exit(1)
sys.exit(0)
