"""C18 finding 5: load_data() unwraps with ndarray.item() whenever the stored
array has exactly one element, not only for the 0-d object array that np.save
creates from a dict.  A one-group data list [dict] (what config.get_data()
returns for a single data group) comes back as the bare dict, and a one-event
array comes back as a Python float."""
import sys, os, tempfile
import numpy as np
from tf_pwa.data import save_data, load_data

tmp = tempfile.mkdtemp()
bad = 0
one_group = [{"m": np.array([1.0, 2.0, 3.0]), "weight": np.ones(3)}]
save_data(tmp + "/a.npy", one_group)
back = load_data(tmp + "/a.npy")
print("saved  :", type(one_group).__name__, "of", len(one_group), "group(s)")
print("loaded :", type(back).__name__, "->", back if not isinstance(back, dict) else sorted(back))
if isinstance(back, dict):
    print("VIOLATION: list level lost; back[0] is a KeyError / iterating yields keys")
    bad += 1
two = load_data((save_data(tmp + "/b.npy", one_group * 2), tmp + "/b.npy")[1])
print("two groups come back with len", len(two), "(list level kept)")

w = np.array([0.7])
save_data(tmp + "/w.npy", w)
wb = load_data(tmp + "/w.npy")
print("one-event weight array saved shape", w.shape, "-> loaded", repr(wb), "expected array([0.7])")
if not isinstance(wb, np.ndarray):
    print("VIOLATION: 1-event array turned into a scalar")
    bad += 1
sys.exit(1 if bad else 0)
