"""C18 finding 8 (minor): save_dict_to_root maps key characters to branch names
non-injectively ('+'->'p', '-'->'m', '*'->'star', '(' ')' ' '->'_').  Two keys
with the same image overwrite each other, one array is lost silently."""
import sys, tempfile
import numpy as np
from tf_pwa.root_io import save_dict_to_root, load_root_data

tmp = tempfile.mkdtemp()
d = {"m_Kp": np.array([1.0, 2.0]), "m_K+": np.array([3.0, 4.0])}
save_dict_to_root(d, tmp + "/t.root")
back = load_root_data(tmp + "/t.root")["DataTree0"]
print("saved keys :", sorted(d))
print("loaded keys:", sorted(back), {k: np.array(v) for k, v in back.items()})
if len(back) != len(d):
    print("VIOLATION: %d arrays written, %d read back" % (len(d), len(back)))
    sys.exit(1)
sys.exit(0)
