"""C18 finding 1: data_merge(..., axis=-1) ignores `axis` for every nested
container, so split(axis=-1) -> merge(axis=-1) does not reproduce nested data.
When the pieces happen to have equal shapes the result is silently wrong
(concatenated along axis 0); otherwise tf.concat raises."""
import sys
import numpy as np
from tf_pwa.data import data_split, data_merge, data_to_numpy

rng = np.random.RandomState(0)
arr = rng.rand(2, 6)
bad = 0

# top-level array: fine
top = data_to_numpy(data_merge(*data_split(arr, 2, axis=-1), axis=-1))
print("top-level array  : merged shape", top.shape, "expected (2, 6)")

# same array inside a dict / list / tuple: axis is dropped
for name, data in [("dict", {"a": arr}), ("list", [arr]), ("tuple", (arr,))]:
    pieces = list(data_split(data, 2, axis=-1))
    merged = data_to_numpy(data_merge(*pieces, axis=-1))
    leaf = merged["a"] if name == "dict" else merged[0]
    ok = leaf.shape == arr.shape and np.array_equal(leaf, arr)
    print("nested in %-5s : merged shape %s expected %s -> %s" % (name, leaf.shape, arr.shape, "ok" if ok else "VIOLATION"))
    bad += not ok

sys.exit(1 if bad else 0)
