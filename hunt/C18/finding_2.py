"""C18 finding 2: LazyFile.as_dataset returns `self` on the first call but the
bare tf.data.Dataset on every later call with the same batch size, and
LazyFile.eval() returns only x.  The extra entries (weight, ...) attached to the
LazyFile are therefore present in the first pass and silently lost afterwards."""
import sys
import numpy as np
from tf_pwa.data import LazyFile, batch_call, data_to_numpy, data_split

N = 20
rng = np.random.RandomState(0)
x = {"p": rng.rand(N, 4)}
w = np.arange(N, dtype=np.float64)
lf = LazyFile(x)
lf["weight"] = w

first = data_to_numpy(batch_call(lambda d: d, lf, 7))
second = data_to_numpy(batch_call(lambda d: d, lf, 7))
ev = lf.eval()
print("1st batch_call keys:", sorted(first), " expected ['p', 'weight']")
print("2nd batch_call keys:", sorted(second), " expected ['p', 'weight']")
print("eval() keys        :", sorted(ev), " expected ['p', 'weight'] (iteration yields both)")
bad = 0
if sorted(first) != ["p", "weight"] or not np.array_equal(first["weight"], w):
    bad += 1
if sorted(second) != ["p", "weight"]:
    print("VIOLATION: weight lost on the second pass over the same LazyFile")
    bad += 1
if sorted(ev) != ["p", "weight"]:
    print("VIOLATION: LazyFile.eval() drops the extra entries that iteration yields")
    bad += 1
sys.exit(1 if bad else 0)
