"""C18 finding 3: the batch size of a nested LazyCall is state stored on the
shared inner object.  copy()/data_replace() share `x`; batching the copy with
another size re-batches the inner data of the original, while the original's
extra entries are still split with its own batch size.  zip() then silently
truncates: events are lost and weights are attached to the wrong events."""
import sys
import numpy as np
import tensorflow as tf
from tf_pwa.data import LazyCall, data_replace, data_split, data_merge, data_to_numpy

N = 20
rng = np.random.RandomState(0)
x = {"p": rng.rand(N, 4)}
w = np.arange(N, dtype=np.float64)

inner = LazyCall(lambda d: {"p": d["p"] * 1.0}, x)
A = LazyCall(lambda d: {"e": d["p"][:, 0]}, inner)
A["weight"] = w
B = data_replace(A, "weight", 2 * w)  # shares A.x

itA = data_split(A, 10)   # A is to be read in batches of 10
itB = data_split(B, 7)    # somebody else batches the copy with 7
pieces = [data_to_numpy(i) for i in itA]
for i in pieces:
    print("piece: events", i["e"].shape[0], " weights", i["weight"].shape[0])
n_ev = sum(i["e"].shape[0] for i in pieces)
aligned = all(i["e"].shape[0] == i["weight"].shape[0] for i in pieces)
print("events seen through A:", n_ev, "expected", N)
print("weights aligned with events:", aligned, "expected True")
if n_ev != N or not aligned:
    print("VIOLATION")
    sys.exit(1)
sys.exit(0)
