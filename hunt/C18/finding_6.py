"""C18 finding 6: CalAngleData.savetxt(file, save_charge=True) derives the name
of the charge file by inserting 'c' before the last '.', i.e.
file_name[::-1].replace('.', '.c', 1)[::-1].  For a file name without any dot
the two names coincide and the charge column overwrites the momenta just
written: all 4-momenta are lost without any message."""
import sys, os, tempfile
import numpy as np
from tf_pwa.cal_angle import cal_angle_from_momentum
from tf_pwa.particle import BaseParticle, BaseDecay, DecayChain, DecayGroup
from tf_pwa.phasespace import PhaseSpaceGenerator
import tensorflow as tf

tf.random.set_seed(1); np.random.seed(1)
N = 5
pb, pc, pd = [np.array(i) for i in PhaseSpaceGenerator(4.6, [2.0, 2.0, 0.14]).generate(N)]
a, b, c, d, r = [BaseParticle(i) for i in ["A", "B", "C", "D", "R"]]
decs = DecayGroup([DecayChain([BaseDecay(a, [r, d]), BaseDecay(r, [b, c])])])
data = cal_angle_from_momentum({b: pb, c: pc, d: pd}, decs)
data["charge_conjugation"] = np.array([1.0, -1.0, 1.0, -1.0, 1.0])

tmp = tempfile.mkdtemp()
bad = 0
for fname in [tmp + "/toy.dat", tmp + "/toy"]:
    data.savetxt(fname, save_charge=True)
    got = np.loadtxt(fname)
    print(os.path.basename(fname), ": files written", sorted(os.listdir(tmp)),
          "| momentum file shape", got.shape, "expected", (3 * N, 4))
    if got.shape != (3 * N, 4):
        print("VIOLATION: momenta overwritten by the charge column")
        bad += 1
sys.exit(1 if bad else 0)
