"""C18 finding 7: for the default data mode ('multi') a list of weight files
given for a single data group is indexed by GROUP (kwargs[i][k] = tmp[i]), so
only the first file is read and the others are dropped silently; mode 'simple'
concatenates the same list.  load_extra_var then cuts with value[:n_data] and
never checks the length, so the short weight vector is accepted."""
import sys, copy, tempfile
import numpy as np
np.Inf = np.inf
import tensorflow as tf
import yaml
from tf_pwa.config_loader import ConfigLoader
from tf_pwa.phasespace import PhaseSpaceGenerator
from tf_pwa.data import data_shape

BASE = yaml.safe_load("""
data: {dat_order: [B, C, D]}
decay:
  A: [[R_BC, D]]
  R_BC: [B, C]
particle:
  $top: {A: {J: 1, P: -1, spins: [-1, 1], mass: 4.6}}
  $finals:
    B: {J: 1, P: -1, mass: 2.00698}
    C: {J: 1, P: -1, mass: 2.01028}
    D: {J: 0, P: -1, mass: 0.13957}
  R_BC: {J: 1, Par: 1, m0: 4.16, g0: 0.1}
""")
tmp = tempfile.mkdtemp()
tf.random.set_seed(1); np.random.seed(1)
N = 10
p = PhaseSpaceGenerator(4.6, [2.00698, 2.01028, 0.13957]).generate(N)
np.savetxt(tmp + "/d.dat", np.stack([np.array(i) for i in p]).transpose((1, 0, 2)).reshape((-1, 4)))
w1, w2 = np.arange(1, 6.0), np.arange(100, 105.0)
np.savetxt(tmp + "/w1.dat", w1); np.savetxt(tmp + "/w2.dat", w2)
expected = np.concatenate([w1, w2])
bad = 0
for mode in ["simple", "multi"]:
    c = copy.deepcopy(BASE)
    c["data"].update(mode=mode, data=[tmp + "/d.dat"], data_weight=[tmp + "/w1.dat", tmp + "/w2.dat"])
    d = ConfigLoader(c).get_data("data")
    d = d[0] if mode == "multi" else d
    w = np.array(d["weight"])
    ok = w.shape == expected.shape and np.array_equal(w, expected)
    print("mode=%-6s events=%d weight=%s expected=%s -> %s" % (mode, data_shape(d), w, expected, "ok" if ok else "VIOLATION"))
    bad += not ok
sys.exit(1 if bad else 0)
