"""C12 finding 2: SU2M.get_euler_angle loses half of the digits of beta near 0 and pi.

beta is taken as acos(Re(x00 x11 + x01 x10)).  Near cos(beta) = +-1 the arc cosine is ill
conditioned: a relative rounding error of 1e-16 in the product of two float64 matrix elements
moves beta by sqrt(2e-16) ~ 2e-8.  The most common instance is an SU(2) product that composes to the
identity (R * R^-1, or R1 * R2 with R2 the inverse rotation): the extracted beta is 2.1e-8
instead of 0 (error of the input: 1e-16), the rotation rebuilt from the extracted angles differs
from the input matrix by 1e-8, and D^j(R1) D^j(R2) = D^j(R1 R2) fails at j * 2e-8 (1e-7 for j=4).
The same happens for any small beta < 1e-6 and next to pi.

Expected: beta = 2 atan2(|x10|, |x11|) (well conditioned everywhere), which gives the
input back to 1e-16; second reference: the group law with the exact D^j of the factors.
Exit code 1 when the violation is present.
"""
import sys

import numpy as np
import tensorflow as tf

from tf_pwa.angle import SU2M
from tf_pwa.dfun import D_matrix_conj

T = tf.constant


def rot(a, b, g):
    return SU2M.Rotation_z(T(g)) * SU2M.Rotation_y(T(b)) * SU2M.Rotation_z(T(a))


def mat(s):
    x = s["x"]
    return np.array(
        [[np.array(x[0][0]), np.array(x[0][1])], [np.array(x[1][0]), np.array(x[1][1])]]
    )


def Dj(ang, j2):
    # matrix of the same group element in the spin j2/2 representation
    # (for j2=1 it is the SU2M matrix itself)
    d = D_matrix_conj(ang["alpha"], ang["beta"], ang["gamma"], j2).numpy()
    return np.transpose(d, (0, 2, 1))


rng = np.random.RandomState(7)
N = 200
a1, g1 = rng.uniform(-np.pi, np.pi, (2, N))
b1 = rng.uniform(0.1, 3.0, N)
R1 = rot(a1, b1, g1)
R2 = rot(-g1, -b1, -a1)  # inverse rotation
ang1 = {"alpha": T(a1), "beta": T(b1), "gamma": T(g1)}
ang2 = {"alpha": T(-g1), "beta": T(-b1), "gamma": T(-a1)}

fail = False
for name, P in [("R1*R2", R1 * R2), ("R1*R1.inv()", R1 * R1.inv())]:
    m = mat(P)
    dev_in = np.abs(m - np.eye(2)[:, :, None]).max()
    ang = P.get_euler_angle()
    beta = ang["beta"].numpy()
    beta_ref = 2 * np.arctan2(np.abs(m[1, 0]), np.abs(m[1, 1]))
    rec = mat(SU2M.Rotation_z(ang["gamma"]) * SU2M.Rotation_y(ang["beta"]) * SU2M.Rotation_z(ang["alpha"]))
    err = np.abs(rec - m).max()
    print("%s: input differs from identity by %.1e" % (name, dev_in))
    print("   extracted beta max %.3e   expected (2 atan2(|x10|,|x11|)) max %.3e" % (beta.max(), beta_ref.max()))
    print("   |rebuilt - input| max %.3e   expected ~1e-16" % err)
    if err > 1e-10 or np.abs(beta - beta_ref).max() > 1e-10:
        fail = True

P = R1 * R2
angP = P.get_euler_angle()
for j2 in (1, 2, 8):
    lhs = np.einsum("nij,njk->nik", Dj(ang1, j2), Dj(ang2, j2))
    rhs = Dj(angP, j2)
    unit = np.abs(lhs - np.eye(j2 + 1)).max()
    err = np.abs(lhs - rhs).max()
    print("2j=%d: |D(R1)D(R2) - 1| = %.1e ; |D(R1)D(R2) - D(angles of R1*R2)| = %.3e  expected ~1e-15" % (j2, unit, err))
    if err > 1e-10:
        fail = True

# small but non-zero beta, and beta next to pi
for b in (1e-8, 1e-7, np.pi - 1e-8):
    R = rot(np.array([0.3]), np.array([b]), np.array([-1.1]))
    ang = R.get_euler_angle()
    print("beta in %.17g -> out %.17g  (error %.2e)" % (b, ang["beta"].numpy()[0], abs(ang["beta"].numpy()[0] - b)))
    if abs(ang["beta"].numpy()[0] - b) > 1e-10:
        fail = True

if fail:
    print("VIOLATION")
    sys.exit(1)
print("ok")
