"""C12 finding 1: the fallback CG routine tf_pwa.cg.get_cg_coef returns wrong values.

(a) If j1 == 0 or j2 == 0 it returns 1.0 unconditionally, also when J != the other spin,
    where the exact coefficient <0 0 j2 m2 | J M> = delta(J, j2) delta(M, m2) is 0.
(b) The table is looked up through str(): integer spins written as floats (1.0 instead of 1,
    which is what tf_pwa.particle.GetA2BC_LS_list itself produces for s, e.g. (0, 1.0)) are never
    found ("1.0" is not a key) and the function silently returns 0.0 for a coefficient that the
    table does define (and that cg_coef / the exact Racah formula give as non-zero).

Expected values: closed Racah formula (exact rational arithmetic) and, as a second reference, the
library's own sympy based cg_coef.  Exit code 1 when the violation is present.
"""
import math
import sys
from fractions import Fraction as F

from tf_pwa.cg import cg_coef, get_cg_coef


def fact(x):
    assert x.denominator == 1 and x >= 0
    return math.factorial(int(x))


def cg_exact(j1, m1, j2, m2, J, M):
    j1, m1, j2, m2, J, M = map(F, (j1, m1, j2, m2, J, M))
    if m1 + m2 != M or J < abs(j1 - j2) or J > j1 + j2:
        return 0.0
    if abs(m1) > j1 or abs(m2) > j2 or abs(M) > J:
        return 0.0
    pref = F(
        (2 * J + 1) * fact(J + j1 - j2) * fact(J - j1 + j2) * fact(j1 + j2 - J),
        fact(j1 + j2 + J + 1),
    )
    pref *= fact(J + M) * fact(J - M) * fact(j1 - m1) * fact(j1 + m1)
    pref *= fact(j2 - m2) * fact(j2 + m2)
    s = F(0)
    for k in range(0, 40):
        args = [k, j1 + j2 - J - k, j1 - m1 - k, j2 + m2 - k, J - j2 + m1 + k, J - j1 - m2 + k]
        if any(a < 0 for a in args):
            continue
        den = 1
        for a in args:
            den *= fact(F(a))
        s += F((-1) ** k, den)
    return math.sqrt(pref) * float(s)


bad = 0
n = 0
# (a) all integer arguments with spins 0..4  (argument order: j1, j2, m1, m2, J, M)
first = []
for j1 in range(0, 5):
    for j2 in range(0, 5):
        for J in range(0, 5):
            for m1 in range(-j1, j1 + 1):
                for m2 in range(-j2, j2 + 1):
                    M = m1 + m2
                    if abs(M) > J:
                        continue
                    exp = cg_exact(j1, m1, j2, m2, J, M)
                    exp2 = cg_coef(j1, j2, m1, m2, J, M)  # sympy path of the library
                    assert abs(exp - exp2) < 1e-12
                    obs = get_cg_coef(j1, j2, m1, m2, J, M)
                    n += 1
                    if abs(obs - exp) > 1e-12:
                        bad += 1
                        if len(first) < 5:
                            first.append(((j1, j2, m1, m2, J, M), obs, exp))
print("(a) integer arguments, spins 0..4: %d of %d coefficients wrong" % (bad, n))
for args, obs, exp in first:
    print("    get_cg_coef%r = %r   expected (Racah formula and cg_coef) %r" % (args, obs, exp))

# (b) same numbers written as floats
bad_b = 0
args_i = (1, 1, 1, 0, 2, 1)
args_f = tuple(float(i) for i in args_i)
exp = cg_exact(1, 1, 1, 0, 2, 1)
obs_i = get_cg_coef(*args_i)
obs_f = get_cg_coef(*args_f)
print("(b) get_cg_coef%r = %r ; get_cg_coef%r = %r ; expected %r (cg_coef%r = %r)"
      % (args_i, obs_i, args_f, obs_f, exp, args_f, cg_coef(*args_f)))
if abs(obs_f - exp) > 1e-12:
    bad_b += 1
# the (l, s) lists of the library carry such floats
from tf_pwa.particle import GetA2BC_LS_list
ls = GetA2BC_LS_list(1, 0.5, 0.5, p_break=True)
print("    GetA2BC_LS_list(1, 1/2, 1/2) =", ls)
l, s = [i for i in ls if i[0] == 2][0]
obs = get_cg_coef(l, s, 0, 0.0, 1, 0.0)  # <l 0 s 0 | ja 0> as used in get_cg_matrix
exp = cg_exact(2, 0, 1, 0, 1, 0)
print("    get_cg_coef(%r, %r, 0, 0.0, 1, 0.0) = %r   expected %r" % (l, s, obs, exp))
if abs(obs - exp) > 1e-12:
    bad_b += 1

if bad or bad_b:
    print("VIOLATION")
    sys.exit(1)
print("ok")
