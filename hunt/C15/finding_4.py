"""C15 finding 4: a barrier radius given per particle (constrains: decay: decay_d: {name: d})
is silently ignored when the dict has fewer entries than the chain has decays.

config_loader.add_decay_constraints, dict branch:
        for d, j in zip(decay_d, i):          # zip over the KEYS of the dict and the decays
            if j.core.name in decay_d: ...
zip() stops after len(decay_d) decays, so with decay_d = {"R_BC": 1.5} only the first decay of
each chain (A -> R_BC D, core A) is inspected and R_BC keeps d = 3.0.  The line shape and the
barrier factors are then evaluated with d = 3.0 although d = 1.5 was configured.

Expected value: the same configuration written so that every decay is visited
(decay_d = {"A": 3.0, "R_BC": 1.5}, or the list form [3.0, 1.5]) and the numpy formula
1/(m0^2 - m^2 - i m0 Gamma(m)) with B'_1(q, q0, d = 1.5).
"""
import sys
import numpy as np
if not hasattr(np, "Inf"):
    np.Inf = np.inf
import tensorflow as tf

from tf_pwa.config_loader import ConfigLoader

M0, G0, M1, M2 = 0.5, 0.05, 0.1, 0.15


def cfg(decay_d):
    dic = {
        "data": {"dat_order": ["B", "C", "D"]},
        "decay": {"A": [["R_BC", "D"]], "R_BC": ["B", "C"]},
        "particle": {
            "$top": {"A": {"J": 0, "P": -1, "mass": 1.0}},
            "$finals": {
                "B": {"J": 0, "P": -1, "mass": M1},
                "C": {"J": 0, "P": -1, "mass": M2},
                "D": {"J": 0, "P": -1, "mass": 0.1},
            },
            "R_BC": {"J": 1, "P": -1, "mass": M0, "width": G0, "model": "BWR"},
        },
        "constrains": {"decay": {"decay_d": decay_d}},
    }
    return ConfigLoader(dic)


def get_R(config):
    for ch in config.get_amplitude().decay_group:
        for dec in ch:
            if str(dec.core) == "R_BC":
                return dec.core, dec


def q_of(m):
    return np.sqrt((m * m - (M1 + M2) ** 2) * (m * m - (M1 - M2) ** 2)) / 2 / m


def ref(m, d):
    q, q0 = q_of(m), q_of(M0)
    gam = G0 * (q / q0) ** 3 * (M0 / m) * (1 + (q0 * d) ** 2) / (1 + (q * d) ** 2)
    return 1 / (M0**2 - m**2 - 1j * M0 * gam)


m = np.array([0.3, 0.45, 0.6, 0.85])
res = {}
for name, dd in [("dict {R_BC: 1.5}", {"R_BC": 1.5}), ("dict {A: 3.0, R_BC: 1.5}", {"A": 3.0, "R_BC": 1.5}), ("list [3.0, 1.5]", [3.0, 1.5])]:
    R, dec = get_R(cfg(dd))
    res[name] = (R.d, dec.d, np.array(R(tf.constant(m))))
    print(f"{name:26s} R_BC.d = {R.d}  decay.d = {dec.d}  R(0.45) = {res[name][2][1]}")
print("numpy formula d=1.5: R(0.45) =", ref(m, 1.5)[1], "   d=3.0:", ref(m, 3.0)[1])
obs = res["dict {R_BC: 1.5}"]
exp = res["dict {A: 3.0, R_BC: 1.5}"]
assert np.allclose(exp[2], ref(m, 1.5), rtol=1e-12) and np.allclose(res["list [3.0, 1.5]"][2], ref(m, 1.5), rtol=1e-12)
bad = obs[0] != 1.5 or np.max(np.abs(obs[2] - ref(m, 1.5)) / np.abs(obs[2])) > 1e-6
print("VIOLATION" if bad else "ok")
sys.exit(1 if bad else 0)
