"""C15 finding 6: python-float parameters are silently rounded to float32 inside the float64
line shapes, because `tf.cast(python_float, tf.float64)` first builds a float32 tensor.

 (a) GS_rho (standard Particle path, everything else float64):  breit_wigner.hFun / dh_dsFun /
     dFun use `_pi = tf.cast(3.14159265359, s.dtype)` -> pi = 3.1415927410125732 (rel. 2.8e-8), and
     GS() does `tf.cast(c_daug2Mass, m.dtype)` on the python-float pion masses (rel. ~3e-8).
     h(m), D and f(m) of the documented Gounaris-Sakurai formula are therefore off by ~3e-8
    , not by float64 round-off.
 (b) the public functions BW / BWR / BWR2 / Gamma / Gamma2 / Bprime called with python-float
     m0, Gamma0, q0 (`tf.cast(m0, m.dtype)`, `tf.cast(q0, q.dtype)`): at m = m0 the value is not
     i/(m0 Gamma0) (real part/imag part = 3e-4 for m0 = 0.1, Gamma0 = 1e-5), Gamma(m0) != Gamma0 and
     B'(q0, q0) != 1 at the 1e-8 level.

 (c) MultiBWR in the standard config path: its `mass` stays a python float, so q0^2 reaches
     Gamma2 / Bprime_q2 as a python float and is rounded by `tf.cast(q02, q2.dtype)`: a one-member
     MultiBWR(0.5, 0.05) gives 39.99999938i at m = m0 instead of i/(m0 Gamma0) = 40i.

Expected values: numpy float64 formulas, and the same library functions called with float64 tensors.
"""
import sys
import numpy as np
if not hasattr(np, "Inf"):
    np.Inf = np.inf
import tensorflow as tf

from tf_pwa import breit_wigner as bw

bad = False
# (a) ---------------------------------------------------------------------------
mp1, mp2, m0 = 0.13957039, 0.1349768, 0.775
m = np.array([0.4, 0.6, 0.775, 1.0])


def k(mm):
    return np.sqrt((mm**2 - (mp1 + mp2) ** 2) * (mm**2 - (mp1 - mp2) ** 2)) / 2 / mm


def h(mm):
    return 2 / np.pi * k(mm) / mm * np.log((mm + 2 * k(mm)) / (mp1 + mp2))


q0 = k(m0)
mpi2 = (mp1 + mp2) ** 2 / 4
D = 3 / np.pi * mpi2 / q0**2 * np.log((m0 + 2 * q0) / (mp1 + mp2)) + m0 / (2 * np.pi * q0) - mpi2 * m0 / (np.pi * q0**3)
h_lib = np.array(bw.hFun(tf.constant(m * m), mp1, mp2))
D_lib = float(bw.dFun(tf.constant(m0 * m0, dtype=tf.float64), mp1, mp2))
print("h(m):  observed", h_lib, "\n       expected", h(m), "\n       rel. error", h_lib / h(m) - 1,
      " (float32(pi)/pi - 1 = %.3e)" % (np.pi / float(np.float32(np.pi)) - 1))
print("D   :  observed %.15g expected %.15g rel. error %.2e" % (D_lib, D, D_lib / D - 1))
if np.max(np.abs(h_lib / h(m) - 1)) > 1e-9 or abs(D_lib / D - 1) > 1e-9:
    bad = True

# (b) ---------------------------------------------------------------------------
M0, G0, Q0 = 0.1, 1e-5, 0.3
mt = tf.constant(np.array([M0]), dtype=tf.float64)
qt = tf.constant(np.array([Q0]), dtype=tf.float64)
expected = 1j / (M0 * G0)
for name, val, val_t in [
    ("BW  ", bw.BW(mt, M0, G0), bw.BW(mt, tf.constant(M0, tf.float64), tf.constant(G0, tf.float64))),
    ("BWR ", bw.BWR(mt, M0, G0, qt, Q0, 1, 3.0),
     bw.BWR(mt, tf.constant(M0, tf.float64), tf.constant(G0, tf.float64), qt, tf.constant(Q0, tf.float64), 1, 3.0)),
    ("BWR2", bw.BWR2(mt, M0, G0, qt * qt, Q0 * Q0, 1, 3.0),
     bw.BWR2(mt, tf.constant(M0, tf.float64), tf.constant(G0, tf.float64), qt * qt, tf.constant(Q0 * Q0, tf.float64), 1, 3.0)),
]:
    v, vt = complex(np.array(val)[0]), complex(np.array(vt := val_t)[0])
    print(f"{name}(m=m0): observed {v}  expected {expected}  (same call with float64 tensors: {vt})")
    if abs(v - expected) > 1e-8 * abs(expected) and abs(vt - expected) < 1e-10 * abs(expected):
        bad = True
g = float(np.array(bw.Gamma(mt, G0, qt, Q0, 1, M0, 3.0))[0])
b = float(np.array(bw.Bprime(1, qt, Q0, 3.0))[0])
print("Gamma(m0): observed %.12g expected %.12g ; Bprime(q0,q0): observed %.12g expected 1" % (g, G0, b))
if abs(g / G0 - 1) > 1e-10 or abs(b - 1) > 1e-10:
    bad = True
# (c) ---------------------------------------------------------------------------
from tf_pwa.utils import create_test_config

c = create_test_config("MultiBWR", {"mass_list": [0.5], "width_list": [0.05]})
for ch in c.get_amplitude().decay_group:
    for dec in ch:
        if str(dec.core) == "R_BC":
            R, D = dec.core, dec
mm = tf.constant(np.array([0.5]), dtype=tf.float64)
q2 = D.get_relative_momentum2({R: {"m": mm}}, True)
q02 = D.get_relative_momentum2({R: {"m": mm}}, False)
v = complex(np.array(R.get_ls_amp(mm, D.get_ls_list(), q2, q02, D.d)[0])[0])
print("MultiBWR(0.5, 0.05) at m = m0: observed", v, " expected", 1j / (0.5 * 0.05), " (type of q0^2:", type(q02).__name__, ")")
if abs(v - 40j) > 1e-9 * 40:
    bad = True
print("VIOLATION" if bad else "ok")
sys.exit(1 if bad else 0)
