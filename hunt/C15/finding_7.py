"""C15 finding 7 (decay-level barrier term, edge of the quantifier): the documented options of
HelicityDecay
   (1) has_bprime=False          removes B_l'(q, q0, d)
   (3) barrier_factor_norm=True  replaces q^l by (q/q0)^l
do not combine: in HelicityDecay.get_barrier_factor2 the division by |q0|^l sits inside the
`if self.has_bprime:` branch, so with has_bprime=False the option barrier_factor_norm=True is
silently ignored and the factor stays q^l (0.215 instead of 1 at q = q0).

Expected: (q/q0)^l, e.g. exactly 1 at q = q0 (numpy), and equal to the has_bprime=True,
barrier_factor_norm=True result divided by B_l'(q, q0, d).
"""
import sys
import numpy as np
if not hasattr(np, "Inf"):
    np.Inf = np.inf
import tensorflow as tf

from tf_pwa.breit_wigner import Bprime_q2
from tf_pwa.config_loader import ConfigLoader

M1, M2, M0 = 0.1, 0.15, 0.5


def cfg(dp):
    dic = {
        "data": {"dat_order": ["B", "C", "D"]},
        "decay": {"A": [["R_BC", "D"]], "R_BC": ["B", "C", dp]},
        "particle": {
            "$top": {"A": {"J": 0, "P": -1, "mass": 1.0}},
            "$finals": {
                "B": {"J": 0, "P": -1, "mass": M1},
                "C": {"J": 0, "P": -1, "mass": M2},
                "D": {"J": 0, "P": -1, "mass": 0.1},
            },
            "R_BC": {"J": 1, "P": -1, "mass": M0, "width": 0.05},
        },
    }
    return ConfigLoader(dic)


def get_dec(config):
    for ch in config.get_amplitude().decay_group:
        for dec in ch:
            if str(dec.core) == "R_BC":
                return dec


def q2f(m):
    return (m * m - (M1 + M2) ** 2) * (m * m - (M1 - M2) ** 2) / 4 / m / m


m = np.array([0.3, 0.5, 0.8])
q2, q02 = tf.constant(q2f(m), dtype=tf.float64), tf.constant(q2f(M0), dtype=tf.float64)


def bf(dp):
    dec = get_dec(cfg(dp))
    return np.array(dec.get_barrier_factor2(tf.constant(m), q2, q02, dec.d))[:, 0]


obs = bf({"has_bprime": False, "barrier_factor_norm": True})
exp1 = np.sqrt(q2f(m) / q2f(M0))  # (q/q0)^1
exp2 = bf({"barrier_factor_norm": True}) / np.array(Bprime_q2(1, q2, q02, 3.0))
print("observed (has_bprime=False, barrier_factor_norm=True):", obs)
print("expected (q/q0)^l                                    :", exp1)
print("expected from has_bprime=True result / B_l'           :", exp2)
print("plain q^l (what is returned)                          :", np.sqrt(q2f(m)))
bad = np.allclose(exp1, exp2, rtol=1e-12, atol=0) and not np.allclose(obs, exp1, rtol=1e-9)
print("VIOLATION" if bad else "ok")
sys.exit(1 if bad else 0)
