"""C15 finding 1: the sympy denominators used by solve_pole() ignore the configured
barrier radius d (constrains: decay: decay_d), the numeric line shapes use it.

Particle.get_sympy_dom -> formula.BWR_dom(m, m0, g0, l, m1, m2)           (d defaults to 3.0)
ParticleBWRCoupling.get_sympy_dom -> formula.BWR_coupling_dom(...)         (d defaults to 3.0)
ParticleBWRLS.__call__ -> self.get_ls_amp(m, ls, q2, q02)                  (d defaults to 3.0,
     whereas the amplitude path and BWR_LS' own sympy denominator use decay.d)

Expected: 1/get_sympy_dom(m) == R(m) for every barrier radius d (checked two ways: the
library's numeric line shape and an independent numpy formula with the configured d).
"""
import sys
import numpy as np
if not hasattr(np, "Inf"):
    np.Inf = np.inf
import sympy
import tensorflow as tf

from tf_pwa.config_loader import ConfigLoader
from tf_pwa.formula import _flatten

M0, G0, M1, M2, D = 0.5, 0.05, 0.1, 0.15, 1.5


def cfg(model, d, extra=None):
    dic = {
        "data": {"dat_order": ["B", "C", "D"]},
        "decay": {"A": [["R_BC", "D"]], "R_BC": ["B", "C"]},
        "particle": {
            "$top": {"A": {"J": 0, "P": -1, "mass": 1.0}},
            "$finals": {
                "B": {"J": 0, "P": -1, "mass": M1},
                "C": {"J": 0, "P": -1, "mass": M2},
                "D": {"J": 0, "P": -1, "mass": 0.1},
            },
            "R_BC": {"J": 1, "P": -1, "mass": M0, "width": G0, "model": model, **(extra or {})},
        },
        "constrains": {"decay": {"decay_d": d}},
    }
    return ConfigLoader(dic)


def get_R(config):
    for ch in config.get_amplitude().decay_group:
        for dec in ch:
            if str(dec.core) == "R_BC":
                return dec.core, dec


def q_of(m):
    return np.sqrt((m * m - (M1 + M2) ** 2) * (m * m - (M1 - M2) ** 2)) / 2 / m


def ref_bwr(m, d, L=1):
    q, q0 = q_of(m), q_of(M0)
    bp2 = (1 + (q0 * d) ** 2) / (1 + (q * d) ** 2)  # L = 1
    gam = G0 * (q / q0) ** (2 * L + 1) * (M0 / m) * bp2
    return 1 / (M0**2 - m**2 - 1j * M0 * gam)


def ref_coupling(m, d, L=1):
    q = q_of(m)
    bp2 = (1 + 1.0) / (1 + (q * d) ** 2)  # B'^2(q, 1/d, d), L = 1
    return 1 / (M0**2 - m**2 - 1j * M0 * G0 * q / m * q ** (2 * L) * bp2)


m = np.array([0.3, 0.45, 0.5, 0.6, 0.85])
bad = False
for model, ref in [("BWR", ref_bwr), ("BWR2", ref_bwr), ("BWR_coupling", ref_coupling)]:
    c = cfg(model, D)
    R, dec = get_R(c)
    assert R.d == D and dec.d == D
    num = np.array(R(tf.constant(m)))
    var = R.get_sympy_var()
    f = R.get_sympy_dom(*var)
    subs = dict(zip(_flatten(var[1:]), [float(i) for i in _flatten(R.get_num_var())]))
    g = sympy.lambdify(var[0], f.subs(subs), "numpy")
    sym_inv = 1 / np.array([complex(g(mi)) for mi in m])
    e_num = np.max(np.abs(num - ref(m, D)) / np.abs(num))
    e_sym = np.max(np.abs(sym_inv - ref(m, D)) / np.abs(num))
    e_sym3 = np.max(np.abs(sym_inv - ref(m, 3.0)) / np.abs(num))
    print(f"{model:13s} d={D}: |numeric - formula(d)|={e_num:.2e}  |1/sympy - formula(d)|={e_sym:.2e}"
          f"  |1/sympy - formula(d=3)|={e_sym3:.2e}")
    print("   observed 1/sympy_dom:", sym_inv[1], " expected (numeric R):", num[1])
    if e_num < 1e-10 and e_sym > 1e-6:
        bad = True

# BWR_LS: __call__ ignores the configured d (amplitude path / sympy use decay.d)
c = cfg("BWR_LS", D, {"fix_bug1": True})
R, dec = get_R(c)
call = np.array(R(tf.constant(m))[0])
q2, q02 = q_of(m) ** 2, q_of(M0) ** 2
amp_path = np.array(dec.get_barrier_factor2(tf.constant(m), tf.constant(q2), tf.constant(q02), dec.d))[:, 0]
def ref_ls(m, d):
    q, q0 = q_of(m), q_of(M0)
    g = (q / q0) * np.sqrt((1 + (q0 * d) ** 2) / (1 + (q * d) ** 2))
    return g / (M0**2 - m**2 - 1j * M0 * G0 * (q / q0) * (M0 / m) * g * g)
print("BWR_LS  R(m) via __call__       :", call[1])
print("BWR_LS  R(m) via amplitude path :", amp_path[1], " formula(d=1.5):", ref_ls(m, D)[1], " formula(d=3):", ref_ls(m, 3.0)[1])
if np.max(np.abs(amp_path - ref_ls(m, D)) / np.abs(amp_path)) < 1e-10 and np.max(np.abs(call - amp_path) / np.abs(call)) > 1e-6:
    bad = True

print("VIOLATION" if bad else "ok")
sys.exit(1 if bad else 0)
