"""C15 finding 5: Particle.__call__(m) feeds the q^2-based models (BWR2, BWR_normal) with
clamped momenta: q = get_relative_p(m, m1, m2) is clamped to 0 below threshold and
"|q|2" = q**2, "|q0|2" = q0**2 are passed on.  For a resonance whose m0 lies below the m1+m2
threshold -- exactly the case the BWR2 docstring advertises ("The difference of BWR, BWR2 is the
behavior when mass is below the threshold (m0 = 0.1 < 0.1 + 0.1)") -- |q0|2 is 0 instead of the
negative q0^2, so R(m) from __call__ is NaN for every m, while the amplitude path (which uses
get_relative_p2, unclamped) gives the finite documented value.

Expected: Particle.__call__(m) equals the line shape used in the amplitude (checked with
get_amp fed with the unclamped q^2, with the full chain amplitude for an S-wave, and with numpy).
"""
import sys
import numpy as np
if not hasattr(np, "Inf"):
    np.Inf = np.inf
import tensorflow as tf

from tf_pwa.config_loader import ConfigLoader

M0, G0, MB = 0.1, 0.05, 0.1


def cfg(model):
    dic = {
        "data": {"dat_order": ["B", "C", "D"]},
        "decay": {"A": [["R_BC", "D"]], "R_BC": ["B", "C"]},
        "particle": {
            "$top": {"A": {"J": 0, "P": -1, "mass": 1.0}},
            "$finals": {
                "B": {"J": 0, "P": -1, "mass": MB},
                "C": {"J": 0, "P": -1, "mass": MB},
                "D": {"J": 0, "P": -1, "mass": 0.1},
            },
            "R_BC": {"J": 0, "P": 1, "mass": M0, "width": G0, "model": model},
        },
    }
    c = ConfigLoader(dic)
    c.set_params({"A->R_BC.DR_BC->B.C_total_0r": 1.0, "A->R_BC.DR_BC->B.C_total_0i": 0.0})
    return c


def get_R(config):
    for ch in config.get_amplitude().decay_group:
        for dec in ch:
            if str(dec.core) == "R_BC":
                return dec.core, dec


m = np.array([0.3, 0.5, 0.85])
q2 = m * m / 4 - MB**2
q02 = M0 * M0 / 4 - MB**2  # negative
gam = G0 * np.sqrt(q2 / q02 + 0j) * (M0 / m)  # L = 0, principal branch as in Gamma2
ref = {"BWR2": 1 / (M0**2 - m**2 - 1j * M0 * gam), "BWR_normal": np.sqrt(M0 * gam) / (M0**2 - m**2 - 1j * M0 * gam)}
bad = False
for model in ["BWR2", "BWR_normal"]:
    c = cfg(model)
    R, dec = get_R(c)
    call = np.array(R(tf.constant(m)))
    direct = np.array(R.get_amp({"m": tf.constant(m)}, {"|q|2": tf.constant(q2), "|q0|2": tf.constant(q02, dtype=tf.float64)}))
    chain = np.array(c.get_particle_function("R_BC")(m)).reshape(-1)
    print(model, " __call__        :", call)
    print(model, " amplitude path  :", chain)
    print(model, " get_amp(q2,q02) :", direct, " numpy:", ref[model])
    ok_ref = np.allclose(chain, ref[model], rtol=1e-9) and np.allclose(direct, ref[model], rtol=1e-9)
    if ok_ref and not np.allclose(call, chain, rtol=1e-9, equal_nan=False):
        bad = True
print("VIOLATION" if bad else "ok")
sys.exit(1 if bad else 0)
