"""C15 finding 2: models that inherit Particle.get_sympy_dom get the plain BWR
denominator although their numeric line shape has a different denominator.

 * GS_rho:   R(m) = (1 + D G0/m0) / (m0^2 - m^2 + f(m) - i m0 Gamma(m))   (documented + numeric)
             get_sympy_dom / solve_pole use  m0^2 - m^2 - i m0 Gamma(m)   (f(m) missing)
 * BWR_below with m0 below the m1+m2 threshold: numeric q0 comes from the ad-hoc effective
             mass, the sympy denominator takes q0 = q(m0) (imaginary).

 * BWR2 / BWR with m0 below threshold: BWR2 takes the principal branch of sqrt(q^2/q0^2), the
             sympy denominator the opposite one (sign of the real shift m0|Gamma| flipped); BWR drops
             the (q/q0)^(2L+1) factor numerically (q0 = 0) while its sympy denominator keeps it.

Expected: R(m) * sympy_dom(m) is the m-independent numerator (1 + D G0/m0 for GS_rho, 1 for
BWR_below), i.e. the symbolic denominator is the reciprocal of the numeric line shape up to
the documented constant numerator.  The expected denominators are also computed with numpy.
"""
import sys
import numpy as np
if not hasattr(np, "Inf"):
    np.Inf = np.inf
import sympy
import tensorflow as tf

from tf_pwa.config_loader import ConfigLoader
from tf_pwa.formula import _flatten


def cfg(model, J, P, mass, width, m1, m2):
    dic = {
        "data": {"dat_order": ["B", "C", "D"]},
        "decay": {"A": [["R_BC", "D"]], "R_BC": ["B", "C"]},
        "particle": {
            "$top": {"A": {"J": 0, "P": -1, "mass": 1.8}},
            "$finals": {
                "B": {"J": 0, "P": -1, "mass": m1},
                "C": {"J": 0, "P": -1, "mass": m2},
                "D": {"J": 0, "P": -1, "mass": 0.1},
            },
            "R_BC": {"J": J, "P": P, "mass": mass, "width": width, "model": model},
        },
    }
    return ConfigLoader(dic)


def get_R(config):
    for ch in config.get_amplitude().decay_group:
        for dec in ch:
            if str(dec.core) == "R_BC":
                return dec.core, dec


def sym_dom(R, m):
    var = R.get_sympy_var()
    f = R.get_sympy_dom(*var)
    subs = dict(zip(_flatten(var[1:]), [float(i) for i in _flatten(R.get_num_var())]))
    g = sympy.lambdify(var[0], f.subs(subs), "numpy")
    return np.array([complex(g(complex(mi))) for mi in m])


bad = False

# ---------------- GS_rho -------------------------------------------------------
m0, g0, mp1, mp2, d = 0.775, 0.149, 0.13957039, 0.1349768, 3.0
c = cfg("GS_rho", 1, -1, m0, g0, mp1, mp2)
R, dec = get_R(c)
m = np.array([0.4, 0.6, 0.7, 0.775, 0.85, 1.0, 1.3])
num = np.array(R(tf.constant(m)))
dom = sym_dom(R, m)


def k(mm):
    return np.sqrt((mm**2 - (mp1 + mp2) ** 2) * (mm**2 - (mp1 - mp2) ** 2)) / 2 / mm


def h(mm):
    return 2 / np.pi * k(mm) / mm * np.log((mm + 2 * k(mm)) / (mp1 + mp2))


q, q0 = k(m), k(m0)
dhds = h(m0) * (1 / (8 * q0**2) - 1 / (2 * m0**2)) + 1 / (2 * np.pi * m0**2)
f = g0 * m0**2 / q0**3 * (q**2 * (h(m) - h(m0)) + (m0**2 - m**2) * q0**2 * dhds)
mpi2 = (mp1 + mp2) ** 2 / 4
Dc = 3 / np.pi * mpi2 / q0**2 * np.log((m0 + 2 * q0) / (mp1 + mp2)) + m0 / (2 * np.pi * q0) - mpi2 * m0 / (np.pi * q0**3)
gam = g0 * (q / q0) ** 3 * (m0 / m) * (1 + (q0 * d) ** 2) / (1 + (q * d) ** 2)
ref_dom = m0**2 - m**2 + f - 1j * m0 * gam
ref = (1 + Dc * g0 / m0) / ref_dom
print("GS_rho numeric vs documented formula (numpy):", np.max(np.abs(num - ref) / np.abs(ref)))
ratio = num * dom
print("GS_rho  R(m)*sympy_dom(m)   observed:", ratio)
print("        expected constant 1 + D G0/m0 =", 1 + Dc * g0 / m0)
print("        sympy_dom observed:", dom[1], " documented denominator:", ref_dom[1])
gs_bad = np.max(np.abs(num - ref) / np.abs(ref)) < 1e-7 and np.max(np.abs(ratio - (1 + Dc * g0 / m0))) > 1e-3
print("GS_rho violation:", gs_bad)
if gs_bad:
    bad = True
pole = complex(R.solve_pole().numpy())
gs_at_pole_note = "pole returned by GS_rho.solve_pole() = %s (that is the plain BWR pole)" % pole
print("       ", gs_at_pole_note)

# ---------------- BWR_below, m0 below threshold -----------------------------------
c = cfg("BWR_below", 0, 1, 0.15, 0.05, 0.1, 0.1)
R, dec = get_R(c)
m = np.array([0.21, 0.3, 0.5, 0.9])
num = np.array(R(tf.constant(m)))
dom = sym_dom(R, m)
# independent: q0 from the ad-hoc effective mass
mmax, mmin, M0, G0 = 1.8 - 0.1, 0.2, 0.15, 0.05
meff = mmin + (mmax - mmin) / 2 * (1 + np.tanh((M0 - (mmax + mmin) / 2) / (mmax - mmin)))
q2 = m * m / 4 - 0.01
q02 = meff**2 / 4 - 0.01
ref = 1 / (M0**2 - m**2 - 1j * M0 * G0 * np.sqrt(q2 / q02) * (M0 / m))
print("BWR_below numeric vs documented (ad-hoc q0) formula:", np.max(np.abs(num - ref) / np.abs(ref)))
print("BWR_below 1/sympy_dom observed:", 1 / dom)
print("          expected (numeric R):", num)
if np.max(np.abs(num - ref) / np.abs(ref)) < 1e-9 and np.max(np.abs(1 / dom - num) / np.abs(num)) > 1e-6:
    bad = True

# ---------------- BWR2 / BWR, m0 below threshold ------------------------------------
# numeric BWR2: Gamma ~ sqrt(q^2/q0^2) (principal branch, +i|..|)  ->  1/R = m0^2 - m^2 + m0 |Gamma|
# sympy  BWR_dom: (p/p0)^(2l+1) with p0 = sqrt(negative) = +i|p0|   ->      m0^2 - m^2 - m0 |Gamma|
for model in ["BWR2", "BWR"]:
    c = cfg(model, 0, 1, 0.15, 0.05, 0.1, 0.1)
    R, dec = get_R(c)
    mt = tf.constant(m)
    dat = {R: {"m": mt}}
    data_c = {"|q|": dec.get_relative_momentum(dat, True), "|q0|": dec.get_relative_momentum(dat, False),
              "|q|2": dec.get_relative_momentum2(dat, True), "|q0|2": dec.get_relative_momentum2(dat, False)}
    num = np.array(R.get_amp({"m": mt}, data_c))  # what the amplitude uses
    dom = sym_dom(R, m)
    q2, q02 = m * m / 4 - 0.01, 0.15**2 / 4 - 0.01
    gabs = 0.05 * np.sqrt(np.abs(q2 / q02)) * (0.15 / m)
    print(model, "m0 below threshold: 1/R numeric =", 1 / num, " sympy_dom =", dom)
    if model == "BWR2":
        print("      numpy m0^2-m^2+m0|Gamma| =", 0.15**2 - m**2 + 0.15 * gabs, "  m0^2-m^2-m0|Gamma| =", 0.15**2 - m**2 - 0.15 * gabs)
    if np.max(np.abs(1 / num - dom) / np.abs(dom)) > 1e-6:
        bad = True

print("VIOLATION" if bad else "ok")
sys.exit(1 if bad else 0)
