"""C15 finding 3: MultiBWR ("Combine Multi BWR into one particle") does not evaluate
its members as BWR line shapes 1/(m0_k^2 - m^2 - i m0_k Gamma_k(m)) with Gamma_k(m0_k) = Gamma0_k.

ParticleMultiBWR defines a method `mass()` (-> all_mass()[0]) but BaseParticle.__init__ stores
the instance attribute `self.mass` (the `mass:` entry of the config, or None), which shadows the
method.  The decay therefore computes the reference momentum q0 for *all* members from
 (a) the unrelated `mass:` entry (0.5 in the docstring example made by create_test_config), or
 (b) if no `mass:` is given, from tf.reduce_mean of the masses of the first data batch
     (HelicityDecay._get_particle_mass), i.e. the line shape depends on the other events.
Either way Gamma_k(m0_k) != Gamma0_k and the member does not equal i/(m0_k Gamma0_k) at m = m0_k.

Set-up: S-wave (all J = 0, so every barrier factor is 1 and g_ls = total = 1): the chain
amplitude A -> R(->B C) D *is* the line shape.  A one-member MultiBWR(mass_list=[0.6],
width_list=[0.04]) must equal the BWR particle with mass 0.6 and width 0.04.
"""
import sys
import warnings
import numpy as np
if not hasattr(np, "Inf"):
    np.Inf = np.inf
import tensorflow as tf

from tf_pwa.config_loader import ConfigLoader

M0, G0, MB = 0.6, 0.04, 0.1


def cfg(rbc):
    dic = {
        "data": {"dat_order": ["B", "C", "D"]},
        "decay": {"A": [["R_BC", "D"]], "R_BC": ["B", "C"]},
        "particle": {
            "$top": {"A": {"J": 0, "P": -1, "mass": 1.0}},
            "$finals": {
                "B": {"J": 0, "P": -1, "mass": MB},
                "C": {"J": 0, "P": -1, "mass": MB},
                "D": {"J": 0, "P": -1, "mass": 0.1},
            },
            "R_BC": {"J": 0, "P": 1, **rbc},
        },
    }
    c = ConfigLoader(dic)
    c.set_params({"A->R_BC.DR_BC->B.C_total_0r": 1.0, "A->R_BC.DR_BC->B.C_total_0i": 0.0})
    return c


def lineshape(c, m):
    with warnings.catch_warnings():
        warnings.simplefilter("ignore")
        return np.array(c.get_particle_function("R_BC")(m)).reshape(-1)


def q(m):
    return np.sqrt(m * m / 4 - MB * MB)


def ref(m):  # documented BWR, L = 0
    return 1 / (M0**2 - m**2 - 1j * M0 * G0 * (q(m) / q(M0)) * (M0 / m))


m = np.array([0.3, 0.6, 0.8])
bwr = lineshape(cfg({"model": "BWR", "mass": M0, "width": G0}), m)
print("BWR(0.6, 0.04)                       :", bwr, " (numpy formula:", ref(m), ")")
assert np.allclose(bwr, ref(m), rtol=1e-12)

bad = False
multi_a = lineshape(cfg({"model": "MultiBWR", "mass": 0.5, "mass_list": [M0], "width_list": [G0]}), m)
print("MultiBWR([0.6],[0.04]), mass: 0.5    :", multi_a)
print("   at m = m0: observed", multi_a[1], " expected i/(m0 G0) =", 1j / (M0 * G0))
if np.max(np.abs(multi_a - bwr) / np.abs(bwr)) > 1e-6:
    bad = True

# (b) no `mass:` entry: the value at m = 0.6 depends on which other events are in the batch
vals = []
for others in ([0.3, 0.8], [0.25, 0.35], [0.85, 0.88]):
    mm = np.array([others[0], 0.6, others[1]])
    v = lineshape(cfg({"model": "MultiBWR", "mass_list": [M0], "width_list": [G0]}), mm)[1]
    vals.append(v)
    print("MultiBWR([0.6],[0.04]), no mass, batch", mm, "-> R(0.6) =", v, " expected", 1j / (M0 * G0))
if max(abs(v - 1j / (M0 * G0)) for v in vals) > 1e-6 * abs(1 / (M0 * G0)):
    bad = True

print("VIOLATION" if bad else "ok")
sys.exit(1 if bad else 0)
