"""C15 finding 8: for the split-LS particle models (BWR_LS, BWR_LS2, MultiBWR, MultiBW) the
propagator lives in ParticleDecayLS.get_barrier_factor2 (ParticleLS.get_amp returns 1).
HelicityDecay.get_ls_amp only calls get_barrier_factor2 `if self.has_barrier_factor:`, so the
documented decay option  has_barrier_factor: False  ("will remove the q^l B_l'(q, q0, d) part")
silently removes the whole resonance line shape: R(m) == 1 for every m.

Set-up: S-wave chain A -> R(->B C) D, all J = 0 (l = 0, so q^l B_l' == 1 and the option must not
change anything).  Expected: the documented Breit-Wigner 1/(m0^2 - m^2 - i m0 Gamma(m)), equal to
the result without the option, to the BWR model with the same option, and to numpy.
"""
import sys
import numpy as np
if not hasattr(np, "Inf"):
    np.Inf = np.inf
import tensorflow as tf

from tf_pwa.config_loader import ConfigLoader

M0, G0, MB = 0.5, 0.05, 0.1


def cfg(model, dp, extra=None):
    dic = {
        "data": {"dat_order": ["B", "C", "D"]},
        "decay": {"A": [["R_BC", "D"]], "R_BC": ["B", "C", dp]},
        "particle": {
            "$top": {"A": {"J": 0, "P": -1, "mass": 1.0}},
            "$finals": {
                "B": {"J": 0, "P": -1, "mass": MB},
                "C": {"J": 0, "P": -1, "mass": MB},
                "D": {"J": 0, "P": -1, "mass": 0.1},
            },
            "R_BC": {"J": 0, "P": 1, "mass": M0, "width": G0, "model": model, **(extra or {})},
        },
    }
    c = ConfigLoader(dic)
    c.set_params({"A->R_BC.DR_BC->B.C_total_0r": 1.0, "A->R_BC.DR_BC->B.C_total_0i": 0.0})
    return c


m = np.array([0.3, 0.5, 0.8])
q, q0 = np.sqrt(m * m / 4 - MB**2), np.sqrt(M0 * M0 / 4 - MB**2)
ref = 1 / (M0**2 - m**2 - 1j * M0 * G0 * (q / q0) * (M0 / m))
print("numpy 1/(m0^2-m^2-i m0 Gamma(m)), L=0:", ref)
bad = False
for model, extra in [("BWR", {}), ("BWR_LS", {"fix_bug1": True}), ("BWR_LS2", {}),
                     ("MultiBWR", {"mass_list": [M0], "width_list": [G0]})]:
    with_bf = np.array(cfg(model, {}, extra).get_particle_function("R_BC")(m)).reshape(-1)
    without = np.array(cfg(model, {"has_barrier_factor": False}, extra).get_particle_function("R_BC")(m)).reshape(-1)
    print(f"{model:9s} default                  : {with_bf}")
    print(f"{model:9s} has_barrier_factor=False : {without}")
    assert np.allclose(with_bf, ref, rtol=1e-6)
    if not np.allclose(without, ref, rtol=1e-6):
        bad = True
print("VIOLATION" if bad else "ok")
sys.exit(1 if bad else 0)
