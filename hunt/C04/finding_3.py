"""C04 finding 3 (minor): the threshold corner of the Dalitz region, m_BC = m_B + m_C
(B and C comoving).  For an odd-J resonance in the BC system the closed formula
gives q^J = 0 for that chain and a finite density from the other chains.  The
library returns NaN for about half of such events: |q|^2 = Getp2(m_BC, m_B, m_C)
(tf_pwa/cal_angle.py, no clamp) comes out as -1e-16 by round-off and
HelicityDecay.get_barrier_factor2 evaluates q2 ** (l / 2) = (-1e-16) ** 0.5 = NaN
(tf_pwa/amp/core.py:1113).  All events below have IDENTICAL invariants (only the
orientation differs), so the expected density is one number; the library itself
reproduces it (1e-8) on the events where round-off happens to be >= 0.
"""
import contextlib
import io
import sys

import numpy as np

if not hasattr(np, "Inf"):
    np.Inf = np.inf

from tf_pwa.config_loader import ConfigLoader

D = 3.0
M, MB, MC, MD = 5.0, 0.5, 0.3, 1.0
FM = {"B": MB, "C": MC, "D": MD}
COEF = {0: [1.0], 1: [1.0, 1.0], 2: [1.0, 3.0, 9.0], 3: [1.0, 6.0, 45.0, 225.0]}
RES = {  # name: (J, m0, g0, first, second, spectator, coupling)
    "R1": (1, 2.0, 0.3, "B", "C", "D", 0.4 * np.exp(0.3j)),
    "R2": (2, 2.4, 0.2, "B", "D", "C", 0.7 * np.exp(1.3j)),
    "R3": (3, 2.9, 0.25, "D", "C", "B", 1.7),
}


def poly(l, z):
    return np.polyval(COEF[l], z)


def q2fun(m0, m1, m2):
    return (m0**2 - (m1 + m2) ** 2) * (m0**2 - (m1 - m2) ** 2) / (4 * m0**2)


def mdot(a, b):
    return a[:, 0] * b[:, 0] - np.sum(a[:, 1:] * b[:, 1:], -1)


def legendre(J, x):
    c = np.zeros(J + 1)
    c[J] = 1
    return np.polynomial.legendre.legval(x, c)


def expected(p4):
    amp = 0
    for J, m0, g0, a, b, s, c in RES.values():
        pr = p4[a] + p4[b]
        mr = np.sqrt(mdot(pr, pr))
        q2 = np.maximum(q2fun(mr, FM[a], FM[b]), 0)
        if np.all(q2 < 1e-12) and J > 0:
            continue  # q^J = 0: the chain does not contribute at its threshold
        q02 = q2fun(m0, FM[a], FM[b])
        p2, p02 = q2fun(M, mr, FM[s]), q2fun(M, m0, FM[s])
        e1 = (mr**2 + FM[a] ** 2 - FM[b] ** 2) / (2 * mr)
        e3 = (M**2 - mr**2 - FM[s] ** 2) / (2 * mr)
        cos = -(e1 * e3 - mdot(p4[a], p4[s])) / np.sqrt(
            (e1**2 - FM[a] ** 2) * (e3**2 - FM[s] ** 2)
        )
        bq2 = poly(J, q02 * D**2) / poly(J, q2 * D**2)
        bp2 = poly(J, p02 * D**2) / poly(J, p2 * D**2)
        gamma = g0 * np.sqrt(q2 / q02) ** (2 * J + 1) * (m0 / mr) * bq2
        bw = 1 / (m0**2 - mr**2 - 1j * m0 * gamma)
        amp = amp + c * (-1) ** J * np.sqrt(q2 * p2) ** J * np.sqrt(bq2 * bp2) * bw * legendre(J, cos)
    return np.abs(amp) ** 2


def library(p4):
    config = {
        "data": {"dat_order": ["B", "C", "D"]},
        "decay": {"A": []},
        "particle": {
            "$top": {"A": {"J": 0, "P": -1, "mass": M}},
            "$finals": {k: {"J": 0, "P": -1, "mass": v} for k, v in FM.items()},
        },
    }
    for name, (J, m0, g0, a, b, s, c) in RES.items():
        config["decay"]["A"].append([name, s])
        config["decay"][name] = [a, b]
        config["particle"][name] = {"J": J, "P": (-1) ** J, "mass": m0, "width": g0}
    with contextlib.redirect_stdout(io.StringIO()):
        cfg = ConfigLoader(config)
        amp = cfg.get_amplitude()
        par = {}
        for chain in cfg.full_decay:
            c = RES[str(chain.inner[0])][-1]
            par[chain.total.name + "_0r"] = abs(c)
            par[chain.total.name + "_0i"] = float(np.angle(c))
        amp.set_params(par)
        return np.array(amp(cfg.data.cal_angle([p4[i] for i in "BCD"])))


rng = np.random.RandomState(3)
n = 200
d = rng.normal(size=(n, 3))
d /= np.linalg.norm(d, axis=1)[:, None]
mbc = MB + MC
p = np.sqrt(q2fun(M, mbc, MD))
v = p / mbc
one = np.ones((n, 1))
p4 = {
    "B": np.concatenate([MB * np.sqrt(1 + v * v) * one, MB * v * d], -1),
    "C": np.concatenate([MC * np.sqrt(1 + v * v) * one, MC * v * d], -1),
    "D": np.concatenate([np.sqrt(MD**2 + p * p) * one, -p * d], -1),
}
obs, exp = library(p4), expected(p4)
nan = np.isnan(obs)
print("expected density (same for every event): %.10g .. %.10g" % (exp.min(), exp.max()))
print("observed: %d of %d events NaN" % (nan.sum(), n))
if (~nan).any():
    print("observed on the other events: %.10g .. %.10g" % (obs[~nan].min(), obs[~nan].max()))
sys.exit(1 if nan.any() or not np.allclose(obs, exp, rtol=1e-6) else 0)
