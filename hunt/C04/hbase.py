"""Harness: build spinless 3-body configs and compare with numpy reference."""
import numpy as np
if not hasattr(np, "Inf"):
    np.Inf = np.inf
if not hasattr(np, "Inf"):
    np.Inf = np.inf


from tf_pwa.config_loader import ConfigLoader
from tf_pwa.phasespace import PhaseSpaceGenerator

BW_COEF = {
    0: [1.0],
    1: [1.0, 1.0],
    2: [1.0, 3.0, 9.0],
    3: [1.0, 6.0, 45.0, 225.0],
    4: [1.0, 10.0, 135.0, 1575.0, 11025.0],
}


def poly(l, z):
    return np.polyval(BW_COEF[l], z)


def qmom2(m0, m1, m2):
    return (m0**2 - (m1 + m2) ** 2) * (m0**2 - (m1 - m2) ** 2) / (4 * m0**2)


def bprime(l, q2, q02, d=3.0):
    return np.sqrt(poly(l, q02 * d * d) / poly(l, q2 * d * d))


def legendre(J, x):
    from numpy.polynomial import legendre as L

    c = np.zeros(J + 1)
    c[J] = 1
    return L.legval(x, c)


def mass(p):
    return np.sqrt(p[:, 0] ** 2 - np.sum(p[:, 1:] ** 2, axis=-1))


def boost_to_rest(p, pr):
    """boost p into rest frame of pr"""
    m = mass(pr)
    b = pr[:, 1:] / pr[:, :1]
    g = pr[:, 0] / m
    bp = np.sum(b * p[:, 1:], axis=-1)
    b2 = np.sum(b * b, axis=-1)
    coef = np.where(b2 > 0, (g - 1) / np.where(b2 > 0, b2, 1), 0)
    e = g * (p[:, 0] - bp)
    v = p[:, 1:] + (coef * bp - g * p[:, 0])[:, None] * b
    return np.concatenate([e[:, None], v], axis=-1)


CHECK_COS = True


def ref_chain(p4, top_m, res, first, second, spect, J, m0, g0, fm, d=3.0):
    """amplitude of A -> R spect, R -> first second; p4 dict name->(n,4) in A rest frame."""
    pR = p4[first] + p4[second]
    mR = mass(pR)
    pA = p4[first] + p4[second] + p4[spect]
    mA = mass(pA)
    # helicity angle from invariants (frame independent)
    def mdot(a, b):
        return a[:, 0] * b[:, 0] - np.sum(a[:, 1:] * b[:, 1:], -1)
    m1 = np.sqrt(np.abs(mdot(p4[first], p4[first])))
    m2 = np.sqrt(np.abs(mdot(p4[second], p4[second])))
    m3 = np.sqrt(np.abs(mdot(p4[spect], p4[spect])))
    E1 = (mR**2 + m1**2 - m2**2) / (2 * mR)
    E3 = (mA**2 - mR**2 - m3**2) / (2 * mR)
    k1 = np.sqrt(E1**2 - m1**2)
    k3 = np.sqrt(E3**2 - m3**2)
    cos = -(E1 * E3 - mdot(p4[first], p4[spect])) / (k1 * k3)
    if CHECK_COS:
        pf = boost_to_rest(boost_to_rest(p4[first], pA), boost_to_rest(pR, pA))
        nR = boost_to_rest(pR, pA)[:, 1:]
        cos2 = np.sum(pf[:, 1:] * nR, -1) / np.sqrt(np.sum(pf[:, 1:] ** 2, -1) * np.sum(nR**2, -1))
        assert np.max(np.abs(cos - cos2)) < 1e-6, np.max(np.abs(cos - cos2))
    q2 = qmom2(mR, fm[first], fm[second])
    q02 = qmom2(m0, fm[first], fm[second])
    p2 = qmom2(mA, mR, fm[spect])
    p02 = qmom2(top_m, m0, fm[spect])
    q = np.sqrt(q2)
    q0 = np.sqrt(q02)
    gamma = g0 * (q / q0) ** (2 * J + 1) * (m0 / mR) * bprime(J, q2, q02, d) ** 2
    bw = 1 / (m0**2 - mR**2 - 1j * m0 * gamma)
    amp = (
        (-1) ** J
        * q2 ** (J / 2)
        * p2 ** (J / 2)
        * bprime(J, q2, q02, d)
        * bprime(J, p2, p02, d)
        * bw
        * legendre(J, cos)
    )
    return amp


def gen_phsp(top_m, fm, names, n=200, seed=1):
    import tensorflow as tf

    tf.random.set_seed(seed)
    np.random.seed(seed)
    g = PhaseSpaceGenerator(top_m, [fm[i] for i in names])
    ps = g.generate(n)
    return {k: np.array(v) for k, v in zip(names, ps)}


def build_config(top_m, fm, chains, extra_data=None, final_order=("B", "C", "D"), top_extra=None, decay_opts=None):
    """chains: list of dict(name, J, m0, g0, first, second, spect, top_order('RS'|'SR'), c)"""
    decay = {"A": []}
    particle = {
        "$top": {"A": dict(J=0, P=-1, mass=top_m, **(top_extra or {}))},
        "$finals": {k: dict(J=0, P=-1, mass=fm[k]) for k in final_order},
    }
    for ch in chains:
        outs = [ch["name"], ch["spect"]]
        if ch.get("top_order", "RS") == "SR":
            outs = outs[::-1]
        opt = {"p_break": True}
        opt.update((decay_opts or {}).get(("A", ch["name"]), {}))
        entry = outs + [opt]
        if entry not in decay["A"]:
            decay["A"].append(entry)
        ropt = (decay_opts or {}).get((ch["name"],), {})
        d = [ch["first"], ch["second"]] + ([ropt] if ropt else [])
        if ch["name"] in decay:
            if isinstance(decay[ch["name"]][0], list):
                if d not in decay[ch["name"]]:
                    decay[ch["name"]].append(d)
            elif decay[ch["name"]] != d:
                decay[ch["name"]] = [decay[ch["name"]], d]
        else:
            decay[ch["name"]] = d
        pp = dict(J=ch["J"], P=(-1) ** ch["J"], mass=ch["m0"], width=ch["g0"])
        pp.update(ch.get("extra", {}))
        particle[ch["name"]] = pp
    config = {"data": {"dat_order": list(final_order)}, "decay": decay, "particle": particle}
    if extra_data:
        config["data"].update(extra_data)
    return config


def set_couplings(cfg, amp, chains):
    sp = {}
    done = []
    for dc in cfg.full_decay:
        rname = str(dc.inner[0])
        outs = [str(i) for i in dc[1].outs] if str(dc[1].core) == rname else [str(i) for i in dc[0].outs]
        for ch in chains:
            if ch["name"] == rname and sorted(outs) == sorted([ch["first"], ch["second"]]):
                c = ch.get("c", 1.0)
                sp[dc.total.name + "_0r"] = abs(c)
                sp[dc.total.name + "_0i"] = float(np.angle(c))
                done.append(ch)
    assert len(done) == len(chains), (len(done), len(chains))
    amp.set_params(sp)
    return sp


def reference(p4, top_m, fm, chains):
    a = 0
    for ch in chains:
        a = a + ch.get("c", 1.0) * ref_chain(
            p4, top_m, ch["name"], ch["first"], ch["second"], ch["spect"], ch["J"], ch["m0"], ch["g0"], fm
        )
    return np.abs(a) ** 2


def compare(config, p4, top_m, fm, chains, order=("B", "C", "D"), verbose=True, label=""):
    cfg = ConfigLoader(config)
    amp = cfg.get_amplitude()
    set_couplings(cfg, amp, chains)
    data = cfg.data.cal_angle([p4[i] for i in order])
    obs = np.array(amp(data))
    exp = reference(p4, top_m, fm, chains)
    rel = np.max(np.abs(obs - exp) / np.abs(exp))
    if verbose:
        print(label, "max rel diff", rel)
    return rel, obs, exp, cfg, amp
