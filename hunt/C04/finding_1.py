"""C04 finding 1: resonance mass above the kinematic limit (m0 + m_spectator > M)
with J = 1 or J = 3: the Blatt-Weisskopf factor B_J(p) of the production vertex
is silently replaced by the constant 1.

B_J(p)^2 = poly_J(p0^2 d^2) / poly_J(p^2 d^2) is a rational function of the
SQUARED momenta.  For m0 + m_D > M the nominal p0^2 is negative.  The library
(tf_pwa.breit_wigner.Bprime_q2) follows that rational function as long as it is
positive (all J = 0, 2, 4 and J = 1, 3 close to the limit) -- but as soon as
poly_J(p0^2 d^2) < 0 (J=1: p0^2 < -1/d^2, J=3: p0^2 d^2 < -5.1) it returns
sqrt(where(bp > 0, bp, 1.0)) = 1, i.e. it drops also the event dependent
denominator poly_J(p^2 d^2).  The density of a single chain then has the wrong
SHAPE (obs/expected varies from event to event by a factor > 10) and jumps
discontinuously as a function of the resonance mass.

Expected value: the closed formula of the property with |B_J(p)|^2 =
|poly_J(p0^2 d^2)| / poly_J(p^2 d^2)   (a single chain: a phase of B drops out).
"""
import sys

import numpy as np

if not hasattr(np, "Inf"):
    np.Inf = np.inf

import contextlib
import io

from tf_pwa.config_loader import ConfigLoader

COEF = {
    0: [1.0],
    1: [1.0, 1.0],
    2: [1.0, 3.0, 9.0],
    3: [1.0, 6.0, 45.0, 225.0],
    4: [1.0, 10.0, 135.0, 1575.0, 11025.0],
}
D = 3.0
M, MB, MC, MD = 5.0, 0.5, 0.3, 1.0


def poly(l, z):
    return np.polyval(COEF[l], z)


def q2fun(m0, m1, m2):
    return (m0**2 - (m1 + m2) ** 2) * (m0**2 - (m1 - m2) ** 2) / (4 * m0**2)


def legendre(J, x):
    c = np.zeros(J + 1)
    c[J] = 1
    return np.polynomial.legendre.legval(x, c)


def events(n, seed=7):
    """A -> B C D in the A rest frame, flat in (m_BC^2, cos theta), numpy only"""
    rng = np.random.RandomState(seed)
    mbc = rng.uniform(MB + MC + 0.05, M - MD - 0.05, n)
    cos = rng.uniform(-0.95, 0.95, n)
    phi = rng.uniform(-np.pi, np.pi, n)
    q = np.sqrt(q2fun(mbc, MB, MC))
    p = np.sqrt(q2fun(M, mbc, MD))
    # R moves along +z, B at angle theta to z in the R rest frame
    sin = np.sqrt(1 - cos**2)
    qb = np.stack([q * sin * np.cos(phi), q * sin * np.sin(phi), q * cos], -1)
    eb, ec = np.sqrt(q**2 + MB**2), np.sqrt(q**2 + MC**2)
    er = np.sqrt(p**2 + mbc**2)
    g, bg = er / mbc, p / mbc

    def boost(e, v):
        return np.stack(
            [g * e + bg * v[:, 2], v[:, 0], v[:, 1], g * v[:, 2] + bg * e], -1
        )

    pb, pc = boost(eb, qb), boost(ec, -qb)
    pd = np.stack([np.sqrt(p**2 + MD**2), 0 * p, 0 * p, -p], -1)
    return pb, pc, pd, mbc, cos


def library_density(J, m0, g0, p4):
    config = {
        "data": {"dat_order": ["B", "C", "D"]},
        "decay": {"A": [["R", "D", {"p_break": True}]], "R": ["B", "C"]},
        "particle": {
            "$top": {"A": {"J": 0, "P": -1, "mass": M}},
            "$finals": {
                "B": {"J": 0, "P": -1, "mass": MB},
                "C": {"J": 0, "P": -1, "mass": MC},
                "D": {"J": 0, "P": -1, "mass": MD},
            },
            "R": {"J": J, "P": (-1) ** J, "mass": m0, "width": g0},
        },
    }
    with contextlib.redirect_stdout(io.StringIO()):
        cfg = ConfigLoader(config)
        amp = cfg.get_amplitude()
        name = cfg.full_decay[0].total.name
        amp.set_params({name + "_0r": 1.0, name + "_0i": 0.0})
        data = cfg.data.cal_angle(list(p4))
        return np.array(amp(data))


def expected_density(J, m0, g0, mbc, cos):
    q2, q02 = q2fun(mbc, MB, MC), q2fun(m0, MB, MC)
    p2, p02 = q2fun(M, mbc, MD), q2fun(M, m0, MD)
    bq2 = poly(J, q02 * D**2) / poly(J, q2 * D**2)
    bp2 = poly(J, p02 * D**2) / poly(J, p2 * D**2)  # may be negative
    gamma = g0 * np.sqrt(q2 / q02) ** (2 * J + 1) * (m0 / mbc) * bq2
    bw = 1 / (m0**2 - mbc**2 - 1j * m0 * gamma)
    return (
        q2**J * p2**J * bq2 * np.abs(bp2) * np.abs(bw) ** 2 * legendre(J, cos) ** 2
    ), p02


pb, pc, pd, mbc, cos = events(200)
bad = False
print("kinematic limit for the resonance mass: M - m_D =", M - MD)
print(" J    m0   p0^2     poly_J(p0^2 d^2)   min(obs/exp)  max(obs/exp)")
for J, m0 in [(2, 4.5), (4, 4.5), (1, 4.05), (3, 4.2), (1, 4.2), (1, 4.5), (3, 4.5)]:
    obs = library_density(J, m0, 0.5, (pb, pc, pd))
    exp, p02 = expected_density(J, m0, 0.5, mbc, cos)
    r = obs / exp
    flag = ""
    if not (abs(r.min() - 1) < 1e-8 and abs(r.max() - 1) < 1e-8):
        flag = "  <-- VIOLATION (shape: ratio not even constant)"
        bad = True
    print(
        "%2d  %5.2f  %7.4f  %12.4g       %12.6g  %12.6g%s"
        % (J, m0, p02, poly(J, p02 * D**2), r.min(), r.max(), flag)
    )

# discontinuity in the resonance mass: poly_1(z0) = 1 + 9 p0^2 = 0
lo, hi = 4.05, 4.2
for _ in range(60):
    mid = 0.5 * (lo + hi)
    if 1 + 9 * q2fun(M, mid, MD) > 0:
        lo = mid
    else:
        hi = mid
mc = lo
print("\nJ=1: poly_1(p0^2 d^2) changes sign at m0 = %.9f" % mc)
for m0 in [mc * (1 - 1e-6), mc * (1 + 1e-6)]:
    obs = library_density(1, m0, 0.5, (pb, pc, pd))
    exp, _ = expected_density(1, m0, 0.5, mbc, cos)
    print(
        "  m0 = %.9f   observed density[0] = %.6g   expected density[0] = %.6g"
        % (m0, obs[0], exp[0])
    )
    if not np.allclose(obs, exp, rtol=1e-6, atol=0):
        bad = True

if bad:
    print("\nVIOLATION present")
    sys.exit(1)
print("\nno violation")
sys.exit(0)
