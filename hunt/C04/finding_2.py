"""C04 finding 2 (minor, same site as the C01 open finding `collinear_subdecay_axes`):
events on the boundary of the Dalitz region (all three momenta collinear) whose
common direction is (1,1,1)/sqrt(3) get density NaN instead of the finite
closed-form value.  The same events rotated to any other direction (the density of
a spin-0 parent is rotation invariant) reproduce the closed formula to 1e-14.

Cause: tf_pwa/angle.py Vector3.cross_unit: for a vanishing cross product the
fallback is cross(self, other + (1,1,1)), which vanishes again when self is along
(1,1,1); tf.linalg.normalize then returns NaN, beta = atan2(NaN, ..) = NaN and the
NaN propagates through d^J(beta) (for every J, including J = 0).
"""
import contextlib
import io
import sys

import numpy as np

if not hasattr(np, "Inf"):
    np.Inf = np.inf

from tf_pwa.config_loader import ConfigLoader

D = 3.0
M, MB, MC, MD = 5.0, 0.5, 0.3, 1.0
FM = {"B": MB, "C": MC, "D": MD}
COEF = {0: [1.0], 1: [1.0, 1.0], 2: [1.0, 3.0, 9.0]}
RES = {  # name: (J, m0, g0, first, second, spectator, coupling)
    "R1": (0, 2.0, 0.3, "B", "C", "D", 1.0),
    "R2": (1, 2.4, 0.2, "B", "D", "C", 0.7 * np.exp(1.1j)),
    "R3": (2, 1.9, 0.4, "C", "D", "B", 1.3 * np.exp(-2.0j)),
}


def poly(l, z):
    return np.polyval(COEF[l], z)


def q2fun(m0, m1, m2):
    return (m0**2 - (m1 + m2) ** 2) * (m0**2 - (m1 - m2) ** 2) / (4 * m0**2)


def mdot(a, b):
    return a[:, 0] * b[:, 0] - np.sum(a[:, 1:] * b[:, 1:], -1)


def legendre(J, x):
    c = np.zeros(J + 1)
    c[J] = 1
    return np.polynomial.legendre.legval(x, c)


def collinear(direction, n=4):
    d = np.array(direction, float)
    d /= np.linalg.norm(d)
    out = {k: [] for k in "BCD"}
    for i in range(n):
        lo, hi = MB + MC, M - MD
        mbc = lo + (hi - lo) * (i + 0.5) / n
        q = np.sqrt(q2fun(mbc, MB, MC))
        p = np.sqrt(q2fun(M, mbc, MD))
        s = 1 if i % 2 == 0 else -1
        eb, ec = np.sqrt(q * q + MB**2), np.sqrt(q * q + MC**2)
        er = np.sqrt(p * p + mbc**2)
        g, bg = er / mbc, p / mbc
        out["B"].append([g * eb + bg * s * q, *((g * s * q + bg * eb) * d)])
        out["C"].append([g * ec - bg * s * q, *((-g * s * q + bg * ec) * d)])
        out["D"].append([np.sqrt(p * p + MD**2), *(-p * d)])
    return {k: np.array(v) for k, v in out.items()}


def expected(p4):
    amp = 0
    for J, m0, g0, a, b, s, c in RES.values():
        pr = p4[a] + p4[b]
        mr = np.sqrt(mdot(pr, pr))
        q2, q02 = q2fun(mr, FM[a], FM[b]), q2fun(m0, FM[a], FM[b])
        p2, p02 = q2fun(M, mr, FM[s]), q2fun(M, m0, FM[s])
        e1 = (mr**2 + FM[a] ** 2 - FM[b] ** 2) / (2 * mr)
        e3 = (M**2 - mr**2 - FM[s] ** 2) / (2 * mr)
        cos = -(e1 * e3 - mdot(p4[a], p4[s])) / np.sqrt(
            (e1**2 - FM[a] ** 2) * (e3**2 - FM[s] ** 2)
        )
        bq2 = poly(J, q02 * D**2) / poly(J, q2 * D**2)
        bp2 = poly(J, p02 * D**2) / poly(J, p2 * D**2)
        gamma = g0 * np.sqrt(q2 / q02) ** (2 * J + 1) * (m0 / mr) * bq2
        bw = 1 / (m0**2 - mr**2 - 1j * m0 * gamma)
        amp = amp + c * (-1) ** J * np.sqrt(q2 * p2) ** J * np.sqrt(bq2 * bp2) * bw * legendre(J, cos)
    return np.abs(amp) ** 2


def library(p4):
    config = {
        "data": {"dat_order": ["B", "C", "D"]},
        "decay": {"A": []},
        "particle": {
            "$top": {"A": {"J": 0, "P": -1, "mass": M}},
            "$finals": {k: {"J": 0, "P": -1, "mass": v} for k, v in FM.items()},
        },
    }
    for name, (J, m0, g0, a, b, s, c) in RES.items():
        config["decay"]["A"].append([name, s])
        config["decay"][name] = [a, b]
        config["particle"][name] = {"J": J, "P": (-1) ** J, "mass": m0, "width": g0}
    with contextlib.redirect_stdout(io.StringIO()):
        cfg = ConfigLoader(config)
        amp = cfg.get_amplitude()
        par = {}
        for chain in cfg.full_decay:
            c = RES[str(chain.inner[0])][-1]
            par[chain.total.name + "_0r"] = abs(c)
            par[chain.total.name + "_0i"] = float(np.angle(c))
        amp.set_params(par)
        return np.array(amp(cfg.data.cal_angle([p4[i] for i in "BCD"])))


bad = False
for direction in [(1, 2, 3), (1, 1, 1), (-1, -1, -1)]:
    p4 = collinear(direction)
    obs, exp = library(p4), expected(p4)
    print("direction", direction)
    print("   observed:", obs)
    print("   expected:", exp)
    if not np.allclose(obs, exp, rtol=1e-9, atol=0):
        bad = True
        print("   VIOLATION")
sys.exit(1 if bad else 0)
