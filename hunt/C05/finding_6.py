"""
finding_6: the pre-cached / factorised amplitude models ignore the `cp_particles` symmetrisation
(data: {cp_particles: [[B, C]]}), and the cached likelihood models use it in the integral only.

Default: DecayGroup.get_amp3 (tf_pwa/amp/core.py:1916) adds the CP-swapped amplitude data["cp_swap"].
amp_model cached_amp / cached_shape / base_factor build the amplitude from the per-chain angular tensors and never look
at data["cp_swap"]  (same mechanism as the already known identical_particles defect, but a different option).
The cached likelihoods are even inconsistent with themselves: ModelCachedInt builds the integral with get_amp3
(symmetrised) and the data term with build_amp.cached_amp2s (not symmetrised).
"""
import copy
import sys

import numpy as np

for _n, _v in [("Inf", np.inf), ("NaN", np.nan), ("float_", np.float64), ("complex_", np.complex128)]:
    if not hasattr(np, _n):
        setattr(np, _n, _v)
import tensorflow as tf

from tf_pwa.config_loader import ConfigLoader
from tf_pwa.model.model import FCN
from tf_pwa.phasespace import PhaseSpaceGenerator

CONFIG = {
    "data": {"dat_order": ["B", "C", "D"], "cp_particles": [["B", "C"]]},
    "decay": {
        "A": [["R_BC", "D"], ["R_BD", "C"], ["R_CD", "B"]],
        "R_BC": ["B", "C"],
        "R_BD": ["B", "D"],
        "R_CD": ["C", "D"],
    },
    "particle": {
        "$top": {"A": {"J": 1, "P": -1, "spins": [-1, 1], "mass": 4.6}},
        "$finals": {
            "B": {"J": 1, "P": -1, "mass": 2.00698},
            "C": {"J": 1, "P": -1, "mass": 2.00698},
            "D": {"J": 0, "P": -1, "C": 1, "mass": 0.13957},
        },
        "R_BC": {"J": 1, "Par": 1, "m0": 4.16, "g0": 0.1},
        "R_BD": {"J": 1, "Par": 1, "m0": 2.43, "g0": 0.3},
        "R_CD": {"J": 1, "Par": 1, "m0": 2.42, "g0": 0.03},
    },
}


def gen_p4(n, seed):
    tf.random.set_seed(seed)
    return [np.array(i) for i in PhaseSpaceGenerator(4.6, [2.00698, 2.00698, 0.13957]).generate(n)]


def make(**data_opts):
    dic = copy.deepcopy(CONFIG)
    dic["data"].update(data_opts)
    return ConfigLoader(dic)


def load(config, p4):
    n = p4[0].shape[0]
    extra = {"weight": np.ones(n), "charge_conjugation": np.ones(n)}
    data = config.data.cal_angle(list(p4), **extra)
    for k, v in extra.items():
        data[k] = v
    return data


def main():
    p4, p4mc = gen_p4(20, 1), gen_p4(200, 5)
    c0 = make()
    rng = np.random.RandomState(3)
    params = dict(c0.get_params())
    for k in sorted(c0.get_params(trainable_only=True)):
        params[k] = float(rng.uniform(0.3, 1.5)) if k.endswith("r") else float(rng.uniform(-2, 2))
    c0.set_params(params)
    expected = c0.get_amplitude()(load(c0, p4)).numpy()
    print("expected density (default eager):", expected[:3])
    bad = False
    for v in [
        dict(use_tf_function=True),
        dict(amp_model="p4_directly", preprocessor="p4_directly"),
        dict(amp_model="cached_amp", preprocessor="cached_amp"),
        dict(amp_model="cached_shape", preprocessor="cached_shape"),
        dict(amp_model="base_factor"),
    ]:
        c = make(**v)
        c.set_params(params)
        obs = c.get_amplitude()(load(c, p4)).numpy()
        rel = np.max(np.abs(obs / expected - 1))
        print("observed", v, obs[:3], "max rel diff", rel)
        if "amp_model" in v and v["amp_model"] != "p4_directly":
            bad = bad or rel > 1e-8
        else:
            assert rel < 1e-10

    def nll(c):
        f = FCN(c._get_model()[0], load(c, p4), load(c, p4mc))
        n, g = f.nll_grad({})
        return float(n), np.array(g)

    n0, g0 = nll(c0)
    print("expected NLL (default Model):", n0)
    for v in [dict(cached_int=True), dict(cached_amp=True)]:
        c = make(**v)
        c.set_params(params)
        n1, g1 = nll(c)
        print("observed NLL", v, n1, "diff", n1 - n0, "max |grad diff|", np.max(np.abs(g1 - g0)))
        bad = bad or abs(n1 - n0) > 1e-6
    if bad:
        print("VIOLATION: cp_particles symmetrisation ignored by cached strategies")
        sys.exit(1)
    print("no violation")
    sys.exit(0)


main()
