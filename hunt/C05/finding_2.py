"""
finding_2: amp_model p4_directly (direct four-momentum input) does not use the same default
for the option `random_z` as the default preprocessor.

tf_pwa/config_loader/data.py (SimpleData.__init__) gives the default preprocessor
    random_z = dic.get("random_z", True)
while P4DirectlyAmplitudeModel.cal_angle (tf_pwa/amp/amp.py) forwards random_z only
`if k in extra_kwargs`, otherwise cal_angle_from_momentum's own default random_z=False is used.

With random_z=True the z axis of the top frame is the top-particle momentum whenever |p_top| > 1e-5
(lab-frame events); with False it is (0,0,1).  The density depends on the axis as soon as the top
helicities are not summed uniformly (here: top spins [-1, 1], as for e+e- -> 1--), so for
the same parameters and the same events the p4_directly density differs from the default density
unless the user happens to write random_z explicitly.
"""
import copy
import sys

import numpy as np

for _n, _v in [("Inf", np.inf), ("NaN", np.nan), ("float_", np.float64), ("complex_", np.complex128)]:
    if not hasattr(np, _n):
        setattr(np, _n, _v)
import tensorflow as tf

from tf_pwa.config_loader import ConfigLoader
from tf_pwa.phasespace import PhaseSpaceGenerator

CONFIG = {
    "data": {"dat_order": ["B", "C", "D"]},
    "decay": {
        "A": [["R_BC", "D"], ["R_BD", "C"], ["R_CD", "B"]],
        "R_BC": ["B", "C"],
        "R_BD": ["B", "D"],
        "R_CD": ["C", "D"],
    },
    "particle": {
        "$top": {"A": {"J": 1, "P": -1, "spins": [-1, 1], "mass": 4.6}},
        "$finals": {
            "B": {"J": 1, "P": -1, "mass": 2.00698},
            "C": {"J": 1, "P": -1, "mass": 2.01028},
            "D": {"J": 0, "P": -1, "mass": 0.13957},
        },
        "R_BC": {"J": 1, "Par": 1, "m0": 4.16, "g0": 0.1},
        "R_BD": {"J": 1, "Par": 1, "m0": 2.43, "g0": 0.3},
        "R_CD": {"J": 1, "Par": 1, "m0": 2.42, "g0": 0.03},
    },
}


def gen_p4(n, seed, beta):
    tf.random.set_seed(seed)
    p = [np.array(i) for i in PhaseSpaceGenerator(4.6, [2.00698, 2.01028, 0.13957]).generate(n)]
    bx, by, bz = beta
    b2 = bx * bx + by * by + bz * bz
    gamma = 1 / np.sqrt(1 - b2)
    out = []
    for pi in p:
        E, px, py, pz = pi[:, 0], pi[:, 1], pi[:, 2], pi[:, 3]
        bp = bx * px + by * py + bz * pz
        g2 = (gamma - 1) / b2
        out.append(
            np.stack(
                [gamma * (E + bp), px + g2 * bp * bx + gamma * bx * E, py + g2 * bp * by + gamma * by * E, pz + g2 * bp * bz + gamma * bz * E],
                axis=-1,
            )
        )
    return out


def make(**data_opts):
    dic = copy.deepcopy(CONFIG)
    dic["data"].update(data_opts)
    return ConfigLoader(dic)


def density(config, p4, params):
    config.set_params(params)
    n = p4[0].shape[0]
    extra = {"weight": np.ones(n), "charge_conjugation": np.ones(n)}
    data = config.data.cal_angle(list(p4), **extra)
    for k, v in extra.items():
        data[k] = v
    return config.get_amplitude()(data).numpy()


def main():
    # small lab-frame boost of the whole event (e.g. beam crossing angle)
    p4 = gen_p4(20, 1, (0.01, 0.0, 0.02))
    c0 = make()
    rng = np.random.RandomState(3)
    params = dict(c0.get_params())
    for k in sorted(c0.get_params(trainable_only=True)):
        params[k] = float(rng.uniform(0.3, 1.5)) if k.endswith("r") else float(rng.uniform(-2, 2))
    expected = density(c0, p4, params)  # plain eager default evaluation
    observed = density(make(amp_model="p4_directly", preprocessor="p4_directly"), p4, params)
    same_explicit = density(make(amp_model="p4_directly", preprocessor="p4_directly", random_z=True), p4, params)
    default_false = density(make(random_z=False), p4, params)
    print("expected (default model, no random_z in the config)   :", expected[:4])
    print("observed (amp_model/preprocessor p4_directly)          :", observed[:4])
    print("p4_directly with random_z: True written explicitly     :", same_explicit[:4])
    print("default model with random_z: False written explicitly  :", default_false[:4])
    rel = np.max(np.abs(observed / expected - 1))
    print("max relative difference observed/expected - 1 =", rel)
    assert np.max(np.abs(same_explicit / expected - 1)) < 1e-10
    if rel > 1e-8:
        print("VIOLATION: p4_directly evaluates with random_z=False although the configuration default is True")
        sys.exit(1)
    print("no violation")
    sys.exit(0)


main()
