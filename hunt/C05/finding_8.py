"""
finding_8 (call history): the cached integral (tf_pwa.experimental.opt_int.cached_int_mc / build_int_matrix, used by
ModelCachedInt.build_cached_int) fixes the running-width angular momentum `bw_l` of a resonance to the WRONG value when
it is the first evaluation of the amplitude object, and the wrong value then stays for every later evaluation
(also for the default density).

Particle.get_amp (tf_pwa/amp/core.py:417-420, same pattern in tf_pwa/amp/base.py) sets lazily
    if self.bw_l is None: self.bw_l = min(self.decay[0].get_l_list())
and get_l_list() is the *currently selected* ls list.  split_gls (tf_pwa/experimental/opt_int.py:9) selects single
(l,s) couplings, the first one being the first entry of GetA2BC_LS_list, which loops over s first:
for R(2+) -> B(1-) C(1-) the list is ((2,0),(2,1),(0,2),(2,2),(4,2)), so bw_l becomes 2 instead of min l = 0.

Same parameters, same events:  sum_i f(x_i) by plain eager evaluation of a fresh amplitude  !=  cached integral
built first on an identical fresh amplitude; afterwards even the default density of that object is changed.
"""
import copy
import sys

import numpy as np

for _n, _v in [("Inf", np.inf), ("NaN", np.nan), ("float_", np.float64), ("complex_", np.complex128)]:
    if not hasattr(np, _n):
        setattr(np, _n, _v)
import tensorflow as tf

from tf_pwa.config_loader import ConfigLoader
from tf_pwa.experimental.opt_int import cached_int_mc
from tf_pwa.phasespace import PhaseSpaceGenerator

CONFIG = {
    "data": {"dat_order": ["B", "C", "D"]},
    "decay": {
        "A": [["R_BC", "D"], ["R_BD", "C"], ["R_CD", "B"]],
        "R_BC": ["B", "C"],
        "R_BD": ["B", "D"],
        "R_CD": ["C", "D"],
    },
    "particle": {
        "$top": {"A": {"J": 1, "P": -1, "spins": [-1, 1], "mass": 4.6}},
        "$finals": {
            "B": {"J": 1, "P": -1, "mass": 2.00698},
            "C": {"J": 1, "P": -1, "mass": 2.01028},
            "D": {"J": 0, "P": -1, "mass": 0.13957},
        },
        "R_BC": {"J": 2, "Par": 1, "m0": 4.16, "g0": 0.1},
        "R_BD": {"J": 1, "Par": 1, "m0": 2.43, "g0": 0.3},
        "R_CD": {"J": 1, "Par": 1, "m0": 2.42, "g0": 0.03},
    },
}


def gen_p4(n, seed):
    tf.random.set_seed(seed)
    return [np.array(i) for i in PhaseSpaceGenerator(4.6, [2.00698, 2.01028, 0.13957]).generate(n)]


def load(config, p4):
    n = p4[0].shape[0]
    extra = {"weight": np.ones(n), "charge_conjugation": np.ones(n)}
    data = config.data.cal_angle(list(p4), **extra)
    for k, v in extra.items():
        data[k] = v
    return data


def main():
    p4 = gen_p4(50, 1)
    ca, cb = ConfigLoader(copy.deepcopy(CONFIG)), ConfigLoader(copy.deepcopy(CONFIG))
    rng = np.random.RandomState(3)
    params = dict(ca.get_params())
    for k in sorted(ca.get_params(trainable_only=True)):
        params[k] = float(rng.uniform(0.3, 1.5)) if k.endswith("r") else float(rng.uniform(-2, 2))
    ca.set_params(params)
    cb.set_params(params)
    da, db = load(ca, p4), load(cb, p4)
    # object A: default first, then the cached integral
    exp_default = float(np.sum(ca.get_amplitude()(da).numpy()))
    exp_cached_after = float(cached_int_mc(ca.get_amplitude().decay_group, da)())
    # object B (identical, fresh): cached integral first
    obs_cached_first = float(cached_int_mc(cb.get_amplitude().decay_group, db)())
    obs_default_after = float(np.sum(cb.get_amplitude()(db).numpy()))
    print("ls list of R_BC -> B C:", ca.get_amplitude().decay_group[0][1].get_ls_list())
    print("expected  sum f (default eager, fresh object)          :", exp_default, " bw_l(R_BC) =", [p.bw_l for p in ca.get_amplitude().decay_group.resonances if str(p) == "R_BC"])
    print("expected  cached integral built after a default call  :", exp_cached_after)
    print("observed  cached integral built first on fresh object :", obs_cached_first, " bw_l(R_BC) =", [p.bw_l for p in cb.get_amplitude().decay_group.resonances if str(p) == "R_BC"])
    print("observed  default density of that object afterwards   :", obs_default_after)
    assert abs(exp_default - exp_cached_after) < 1e-8 * abs(exp_default)
    if abs(obs_cached_first - exp_default) > 1e-8 * abs(exp_default):
        print("VIOLATION: cached integral depends on the call history (bw_l taken from a single selected ls)")
        sys.exit(1)
    print("no violation")
    sys.exit(0)


main()
