"""
finding_7: the cached likelihood models silently drop the data-section option `resolution_size`.

ConfigLoader._get_model_cached (tf_pwa/config_loader/config_loader.py:591-596) builds
ModelCachedInt(amp, wb) / ModelCachedAmp(amp, wb) without resolution_size, and their nll_grad_batch
(tf_pwa/model/opt_int.py) call sum_gradient / sum_gradient_data2 which have no resolution handling at all;
even the inherited Model.nll uses resolution_size = 1.  With  data: {resolution_size: K}  the default model
evaluates  -sum_e W_e ln( sum_k w_ek f(x_ek) / W_e )  (K smeared copies per event), the cached models evaluate
-sum_ek w_ek ln f(x_ek).  Nothing is raised; line shapes are fixed, no identical particles, charge +1.
"""
import copy
import sys

import numpy as np

for _n, _v in [("Inf", np.inf), ("NaN", np.nan), ("float_", np.float64), ("complex_", np.complex128)]:
    if not hasattr(np, _n):
        setattr(np, _n, _v)
import tensorflow as tf

from tf_pwa.config_loader import ConfigLoader
from tf_pwa.model.model import FCN
from tf_pwa.phasespace import PhaseSpaceGenerator

K = 2
CONFIG = {
    "data": {"dat_order": ["B", "C", "D"], "resolution_size": K},
    "decay": {
        "A": [["R_BC", "D"], ["R_BD", "C"], ["R_CD", "B"]],
        "R_BC": ["B", "C"],
        "R_BD": ["B", "D"],
        "R_CD": ["C", "D"],
    },
    "particle": {
        "$top": {"A": {"J": 1, "P": -1, "spins": [-1, 1], "mass": 4.6}},
        "$finals": {
            "B": {"J": 1, "P": -1, "mass": 2.00698},
            "C": {"J": 1, "P": -1, "mass": 2.01028},
            "D": {"J": 0, "P": -1, "mass": 0.13957},
        },
        "R_BC": {"J": 1, "Par": 1, "m0": 4.16, "g0": 0.1},
        "R_BD": {"J": 1, "Par": 1, "m0": 2.43, "g0": 0.3},
        "R_CD": {"J": 1, "Par": 1, "m0": 2.42, "g0": 0.03},
    },
}


def gen_p4(n, seed):
    tf.random.set_seed(seed)
    return [np.array(i) for i in PhaseSpaceGenerator(4.6, [2.00698, 2.01028, 0.13957]).generate(n)]


def make(**data_opts):
    dic = copy.deepcopy(CONFIG)
    dic["data"].update(data_opts)
    return ConfigLoader(dic)


def load(config, p4, weight=None):
    n = p4[0].shape[0]
    extra = {"weight": np.ones(n) if weight is None else weight, "charge_conjugation": np.ones(n)}
    data = config.data.cal_angle(list(p4), **extra)
    for k, v in extra.items():
        data[k] = v
    return data


def main():
    p4, p4mc = gen_p4(40, 1), gen_p4(300, 5)  # 20 events x K=2 smeared copies
    w = np.random.RandomState(11).uniform(0.5, 1.5, 40)
    c0 = make()
    rng = np.random.RandomState(3)
    params = dict(c0.get_params())
    for k in sorted(c0.get_params(trainable_only=True)):
        params[k] = float(rng.uniform(0.3, 1.5)) if k.endswith("r") else float(rng.uniform(-2, 2))
    c0.set_params(params)

    def nll(c):
        model = c._get_model()[0]
        f = FCN(model, load(c, p4, w), load(c, p4mc))
        n, g = f.nll_grad({})
        return type(model).__name__, float(n), np.array(g), float(f({})), np.array(f.weight)

    name0, n0, g0, n0b, wf = nll(c0)
    amp = c0.get_amplitude()
    f, fmc = amp(load(c0, p4)).numpy(), amp(load(c0, p4mc)).numpy()
    We = wf.reshape((-1, K)).sum(-1)
    n_np = -np.sum(We * np.log((wf * f).reshape((-1, K)).sum(-1) / We)) + np.sum(wf) * np.log(np.mean(fmc))
    print("expected NLL (default Model, nll_grad) :", n0, " nll():", n0b)
    print("expected NLL (numpy resolution formula):", n_np)
    assert abs(n0 - n_np) < 1e-8 and abs(n0b - n_np) < 1e-8
    bad = False
    for v in [dict(cached_int=True), dict(cached_amp=True)]:
        c = make(**v)
        c.set_params(params)
        name, n1, g1, n1b, _ = nll(c)
        print("observed", v, name, "nll_grad:", n1, " nll():", n1b, " diff", n1 - n0, " max |grad diff|", np.max(np.abs(g1 - g0)))
        bad = bad or abs(n1 - n0) > 1e-6 or abs(n1b - n0) > 1e-6
    if bad:
        print("VIOLATION: resolution_size ignored by the cached likelihood models")
        sys.exit(1)
    print("no violation")
    sys.exit(0)


main()
