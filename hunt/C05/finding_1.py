"""
finding_1: the cached likelihood models (data: {cached_int: True} -> ModelCachedInt,
data: {cached_amp: True} -> ModelCachedAmp) ignore the polarisation density matrix of the
top particle (particle option  polarization: vector).

Default model:   density = sum_{m m' lambda} A_{m lambda} rho_{m m'} A*_{m' lambda}
Cached models:   density = sum_{m lambda} |A_{m lambda}|^2           (rho dropped)

No identical particles, no charge conjugation, all masses/widths fixed -> the cached models
are "applicable", and the NLL / gradient must equal those of the default model.
"""
import copy
import sys

import numpy as np

for _n, _v in [("Inf", np.inf), ("NaN", np.nan), ("float_", np.float64), ("complex_", np.complex128)]:
    if not hasattr(np, _n):
        setattr(np, _n, _v)
import tensorflow as tf

from tf_pwa.config_loader import ConfigLoader
from tf_pwa.model.model import FCN
from tf_pwa.phasespace import PhaseSpaceGenerator

CONFIG = {
    "data": {"dat_order": ["B", "C", "D"]},
    "decay": {
        "A": [["R_BC", "D", {"p_break": True}], ["R_CD", "B", {"p_break": True}]],
        "R_BC": ["B", "C"],
        "R_CD": ["C", "D"],
    },
    "particle": {
        "$top": {"A": {"J": 0.5, "P": 1, "mass": 5.6, "polarization": "vector"}},
        "$finals": {
            "B": {"J": 0.5, "P": 1, "mass": 0.938},
            "C": {"J": 0, "P": -1, "mass": 0.494},
            "D": {"J": 0, "P": -1, "mass": 0.14},
        },
        "R_BC": {"J": 1.5, "P": -1, "mass": 1.8, "width": 0.1},
        "R_CD": {"J": 1, "P": -1, "mass": 0.9, "width": 0.05},
    },
}


def gen_p4(n, seed):
    tf.random.set_seed(seed)
    p = PhaseSpaceGenerator(5.6, [0.938, 0.494, 0.14]).generate(n)
    return [np.array(i) for i in p]


def make(polarized=True, **data_opts):
    dic = copy.deepcopy(CONFIG)
    dic["data"].update(data_opts)
    if not polarized:
        del dic["particle"]["$top"]["A"]["polarization"]
    return ConfigLoader(dic)


def load(config, p4):
    n = p4[0].shape[0]
    extra = {"weight": np.ones(n), "charge_conjugation": np.ones(n)}
    data = config.data.cal_angle(list(p4), **extra)
    for k, v in extra.items():
        data[k] = v
    return data


def nll_grad(config, p4, p4mc):
    data, mc = load(config, p4), load(config, p4mc)
    model = config._get_model()[0]
    fcn = FCN(model, data, mc, batch=65000)
    nll, g = fcn.nll_grad({})
    return type(model).__name__, float(nll), np.array(g)


def numpy_nll(config, p4, p4mc):
    """independent: density by hand from the amplitude tensor and rho, then the NLL formula"""
    dg = config.get_amplitude().decay_group

    def dens(p):
        d = load(config, p)
        a = dg.get_amp3(d).numpy()
        a = a.reshape((a.shape[0], a.shape[1], -1))
        if dg.polarization != "none":
            rho = np.array(dg.get_density_matrix())
        else:
            rho = np.eye(a.shape[1])
        return np.real(np.einsum("nal,ab,nbl->n", a, rho, np.conj(a)))

    f, fmc = dens(p4), dens(p4mc)
    return -np.sum(np.log(f)) + len(f) * np.log(np.mean(fmc))


def main():
    p4, p4mc = gen_p4(40, 1), gen_p4(300, 5)
    failed = False
    for polarized in [False, True]:
        c0 = make(polarized)
        rng = np.random.RandomState(3)
        params = dict(c0.get_params())
        for k in sorted(c0.get_params(trainable_only=True)):
            params[k] = float(rng.uniform(0.3, 1.5)) if k.endswith("r") else float(rng.uniform(-2, 2))
        if polarized:
            params.update({"A_polarization_px": 0.3, "A_polarization_py": -0.2, "A_polarization_pz": 0.6})
        c0.set_params(params)
        name0, n0, g0 = nll_grad(c0, p4, p4mc)
        n_np = numpy_nll(c0, p4, p4mc)
        print("polarized top:", polarized)
        print("  expected NLL (default Model)      :", n0)
        print("  expected NLL (numpy, A rho A^+)   :", n_np)
        assert abs(n0 - n_np) < 1e-8, "reference is not self consistent"
        for opt in ["cached_int", "cached_amp"]:
            c = make(polarized, **{opt: True})
            c.set_params(params)
            name, n1, g1 = nll_grad(c, p4, p4mc)
            dg_ = np.max(np.abs(g1 - g0))
            print("  observed NLL data:{%s: True} (%s): %.12f   diff %.3e   max |grad diff| %.3e" % (opt, name, n1, n1 - n0, dg_))
            if polarized and (abs(n1 - n0) > 1e-6 or dg_ > 1e-6):
                failed = True
            if not polarized:
                assert abs(n1 - n0) < 1e-8 and dg_ < 1e-6, "unpolarised sanity check failed"
    if failed:
        print("VIOLATION: cached likelihood models ignore the polarisation density matrix")
        sys.exit(1)
    print("no violation")
    sys.exit(0)


main()
