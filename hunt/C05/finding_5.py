"""
finding_5: amp_model cached_shape applies the couplings of a `gls-cpv` decay (HelicityDecayCPV) twice.

The cached_shape preprocessor (tf_pwa/amp/preprocess.py, CachedShapePreProcessor.build_cached) evaluates the mass
dependent part inside `amp.temp_total_gls_one()`, which sets `mask_factor = True` on every chain and decay so that
`total` and `g_ls` are replaced by ones; the model then multiplies the cached tensor by the current couplings
(tf_pwa/amp/amp.py CachedShapeAmplitudeModel.pdf -> opt_int.build_params_vector -> chain.get_all_factor()).
HelicityDecay.get_g_ls honours mask_factor, but the override HelicityDecayCPV.get_g_ls (tf_pwa/amp/base.py:668)
does not.  For a decay with `model: gls-cpv` the cached tensor therefore already contains g_ls and the density is
computed with g_ls**2.  All events have charge_conjugation = +1, i.e. this is independent of the known problem with
negative charges.
"""
import copy
import sys

import numpy as np

for _n, _v in [("Inf", np.inf), ("NaN", np.nan), ("float_", np.float64), ("complex_", np.complex128)]:
    if not hasattr(np, _n):
        setattr(np, _n, _v)
import tensorflow as tf

from tf_pwa.config_loader import ConfigLoader
from tf_pwa.phasespace import PhaseSpaceGenerator

CONFIG = {
    "data": {"dat_order": ["B", "C", "D"]},
    "decay": {
        "A": [["R_BC", "D", {"model": "gls-cpv"}], ["R_BD", "C"], ["R_CD", "B"]],
        "R_BC": ["B", "C"],
        "R_BD": ["B", "D"],
        "R_CD": ["C", "D"],
    },
    "particle": {
        "$top": {"A": {"J": 1, "P": -1, "spins": [-1, 1], "mass": 4.6}},
        "$finals": {
            "B": {"J": 1, "P": -1, "mass": 2.00698},
            "C": {"J": 1, "P": -1, "mass": 2.01028},
            "D": {"J": 0, "P": -1, "mass": 0.13957},
        },
        "R_BC": {"J": 1, "Par": 1, "m0": 4.16, "g0": 0.1},
        "R_BD": {"J": 1, "Par": 1, "m0": 2.43, "g0": 0.3},
        "R_CD": {"J": 1, "Par": 1, "m0": 2.42, "g0": 0.03},
    },
}


def gen_p4(n, seed):
    tf.random.set_seed(seed)
    return [np.array(i) for i in PhaseSpaceGenerator(4.6, [2.00698, 2.01028, 0.13957]).generate(n)]


def make(**data_opts):
    dic = copy.deepcopy(CONFIG)
    dic["data"].update(data_opts)
    return ConfigLoader(dic)


def density(config, p4, params):
    config.set_params(params)
    n = p4[0].shape[0]
    extra = {"weight": np.ones(n), "charge_conjugation": np.ones(n)}
    data = config.data.cal_angle(list(p4), **extra)
    for k, v in extra.items():
        data[k] = v
    return config.get_amplitude()(data).numpy()


def main():
    p4 = gen_p4(20, 1)
    c0 = make()
    rng = np.random.RandomState(3)
    params = dict(c0.get_params())
    for k in sorted(c0.get_params(trainable_only=True)):
        params[k] = float(rng.uniform(0.3, 1.5)) if k.endswith("r") else float(rng.uniform(-2, 2))
    expected = density(c0, p4, params)
    expected_tf = density(make(use_tf_function=True), p4, params)
    observed = density(make(amp_model="cached_shape", preprocessor="cached_shape"), p4, params)
    # mechanism check: default model with the gls-cpv couplings squared (charge = +1)
    sq = dict(params)
    head = "A->R_BC.D_g_ls_"
    idx = sorted({k[len(head):].rstrip("deltari") for k in params if k.startswith(head)})
    for i in idx:
        r, dr = params[head + i + "r"], params.get(head + i + "deltar", 0.0)
        ph, dph = params[head + i + "i"], params.get(head + i + "deltai", 0.0)
        sq[head + i + "r"], sq[head + i + "i"] = (r + dr) ** 2, 2 * (ph + dph)
        if head + i + "deltar" in sq:
            sq[head + i + "deltar"], sq[head + i + "deltai"] = 0.0, 0.0
    squared = density(make(), p4, sq)
    print("expected (default eager)                          :", expected[:4])
    print("expected (default, use_tf_function)               :", expected_tf[:4])
    print("observed (amp_model/preprocessor cached_shape)    :", observed[:4])
    print("default with the gls-cpv couplings squared        :", squared[:4])
    rel = np.max(np.abs(observed / expected - 1))
    print("max rel diff observed/expected - 1 =", rel, "   observed/squared - 1 =", np.max(np.abs(observed / squared - 1)))
    assert np.max(np.abs(expected_tf / expected - 1)) < 1e-10
    if rel > 1e-8:
        print("VIOLATION: cached_shape density differs from the default density for a gls-cpv decay (charge +1)")
        sys.exit(1)
    print("no violation")
    sys.exit(0)


main()
