"""
finding_4: amp_model / preprocessor cached_shape caches the line shape of a resonance whose line-shape
parameters are FLOATING, because the "fixed shape" test looks only at Variable objects stored directly
as attributes of the particle.

tf_pwa/amp/amp.py CachedShapeAmplitudeModel.get_cached_shape_idx -> Particle.is_fixed_shape
(tf_pwa/amp/core.py:392) loops over self.__dict__ and tests isinstance(v, Variable).  The Flatte family
(tf_pwa/amp/flatte.py: self.g_value = [Variable, ...]) and KMatrixSingleChannel (self.beta = [...],
tf_pwa/amp/Kmatrix.py) keep their parameters in *lists*, so a Flatte resonance with free couplings
g_0, g_1 (the default: they are trainable) is declared "fixed shape" and its mass dependent part is frozen at the
parameter values present when the data were preprocessed.  When the (trainable!) couplings change - as
they do in every fit step - the cached_shape density silently keeps the old line shape and differs from the
default density evaluated with identical parameters and events.
"""
import copy
import sys

import numpy as np

for _n, _v in [("Inf", np.inf), ("NaN", np.nan), ("float_", np.float64), ("complex_", np.complex128)]:
    if not hasattr(np, _n):
        setattr(np, _n, _v)
import tensorflow as tf

from tf_pwa.config_loader import ConfigLoader
from tf_pwa.phasespace import PhaseSpaceGenerator

CONFIG = {
    "data": {"dat_order": ["B", "C", "D"]},
    "decay": {
        "A": [["R_BC", "D"], ["R_BD", "C"], ["R_CD", "B"]],
        "R_BC": ["B", "C"],
        "R_BD": ["B", "D"],
        "R_CD": ["C", "D"],
    },
    "particle": {
        "$top": {"A": {"J": 1, "P": -1, "spins": [-1, 1], "mass": 4.6}},
        "$finals": {
            "B": {"J": 1, "P": -1, "mass": 2.00698},
            "C": {"J": 1, "P": -1, "mass": 2.01028},
            "D": {"J": 0, "P": -1, "mass": 0.13957},
        },
        "R_BC": {"J": 1, "Par": 1, "mass": 4.16, "model": "Flatte", "mass_list": [[2.00698, 2.01028], [2.1, 2.1]]},
        "R_BD": {"J": 1, "Par": 1, "m0": 2.43, "g0": 0.3},
        "R_CD": {"J": 1, "Par": 1, "m0": 2.42, "g0": 0.03},
    },
}


def gen_p4(n, seed):
    tf.random.set_seed(seed)
    return [np.array(i) for i in PhaseSpaceGenerator(4.6, [2.00698, 2.01028, 0.13957]).generate(n)]


def make(**data_opts):
    dic = copy.deepcopy(CONFIG)
    dic["data"].update(data_opts)
    return ConfigLoader(dic)


def load(config, p4):
    n = p4[0].shape[0]
    extra = {"weight": np.ones(n), "charge_conjugation": np.ones(n)}
    data = config.data.cal_angle(list(p4), **extra)
    for k, v in extra.items():
        data[k] = v
    return data


def main():
    p4 = gen_p4(20, 1)
    c0 = make()
    c1 = make(amp_model="cached_shape", preprocessor="cached_shape")
    rng = np.random.RandomState(3)
    params = dict(c0.get_params())
    for k in sorted(c0.get_params(trainable_only=True)):
        params[k] = float(rng.uniform(0.3, 1.5)) if k.endswith("r") else float(rng.uniform(-2, 2))
    params["R_BC_g_0"], params["R_BC_g_1"] = 0.5, 0.3
    c0.set_params(params)
    c1.set_params(params)
    trainable = sorted(c1.get_params(trainable_only=True))
    print("trainable line-shape parameters:", [k for k in trainable if k.startswith("R_BC_g_")])
    d0, d1 = load(c0, p4), load(c1, p4)  # data are preprocessed (and the shape cached) here
    a0, a1 = c0.get_amplitude(), c1.get_amplitude()
    print("chains taken as fixed shape:", a1.get_cached_shape_idx(), " (chain 0 contains the Flatte resonance)")
    r0 = np.max(np.abs(a1(d1).numpy() / a0(d0).numpy() - 1))
    print("parameters as at preprocessing time: max rel diff =", r0)
    assert r0 < 1e-10
    # a fit step: only trainable parameters change
    step = {"R_BC_g_0": 0.9, "R_BC_g_1": 0.1}
    c0.set_params(step)
    c1.set_params(step)
    expected = a0(d0).numpy()
    # independent reference: a fresh default configuration evaluated from scratch
    c2 = make()
    c2.set_params({**params, **step})
    expected2 = c2.get_amplitude()(load(c2, p4)).numpy()
    observed = a1(d1).numpy()
    print("after changing the trainable couplings R_BC_g_0, R_BC_g_1:")
    print("  expected (default, same object)   :", expected[:4])
    print("  expected (default, fresh config)  :", expected2[:4])
    print("  observed (cached_shape)           :", observed[:4])
    assert np.max(np.abs(expected / expected2 - 1)) < 1e-10
    rel = np.max(np.abs(observed / expected - 1))
    print("  max rel diff =", rel)
    if rel > 1e-8:
        print("VIOLATION: cached_shape froze a line shape that has floating parameters")
        sys.exit(1)
    print("no violation")
    sys.exit(0)


main()
