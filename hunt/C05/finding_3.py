"""
finding_3: the cached-integral likelihood (data: {cached_int: True} -> ModelCachedInt) gives a wrong
normalisation integral when a decay uses the documented option  force_min_l: True.

tf_pwa/experimental/opt_int.py: build_sum_amplitude evaluates the amplitude once per single (l,s)
coupling (split_gls -> decay.set_ls([one ls])).  HelicityDecay.get_barrier_factor2 with force_min_l
takes  l = min(self.get_l_list()), and get_l_list() is the *currently selected* ls list, so inside
split_gls the "minimal l" is the l of the single selected coupling instead of the minimal l of the decay.
The integral matrix is therefore built with q^l B_l for every coupling, while the default model (and the
data part of the same likelihood) uses q^{l_min} B_{l_min}.  All line-shape parameters are fixed, no identical
particles, no charge conjugation: the cached integral is applicable and must agree with the default model.
"""
import copy
import sys

import numpy as np

for _n, _v in [("Inf", np.inf), ("NaN", np.nan), ("float_", np.float64), ("complex_", np.complex128)]:
    if not hasattr(np, _n):
        setattr(np, _n, _v)
import tensorflow as tf

from tf_pwa.config_loader import ConfigLoader
from tf_pwa.model.model import FCN
from tf_pwa.phasespace import PhaseSpaceGenerator

CONFIG = {
    "data": {"dat_order": ["B", "C", "D"]},
    "decay": {
        "A": [["R_BC", "D", {"force_min_l": True}], ["R_BD", "C"], ["R_CD", "B"]],
        "R_BC": ["B", "C", {"force_min_l": True}],
        "R_BD": ["B", "D"],
        "R_CD": ["C", "D"],
    },
    "particle": {
        "$top": {"A": {"J": 1, "P": -1, "spins": [-1, 1], "mass": 4.6}},
        "$finals": {
            "B": {"J": 1, "P": -1, "mass": 2.00698},
            "C": {"J": 1, "P": -1, "mass": 2.01028},
            "D": {"J": 0, "P": -1, "mass": 0.13957},
        },
        "R_BC": {"J": 1, "Par": 1, "m0": 4.16, "g0": 0.1},
        "R_BD": {"J": 1, "Par": 1, "m0": 2.43, "g0": 0.3},
        "R_CD": {"J": 1, "Par": 1, "m0": 2.42, "g0": 0.03},
    },
}


def gen_p4(n, seed):
    tf.random.set_seed(seed)
    return [np.array(i) for i in PhaseSpaceGenerator(4.6, [2.00698, 2.01028, 0.13957]).generate(n)]


def make(force_min_l=True, **data_opts):
    dic = copy.deepcopy(CONFIG)
    dic["data"].update(data_opts)
    if not force_min_l:
        dic["decay"]["A"][0] = ["R_BC", "D"]
        dic["decay"]["R_BC"] = ["B", "C"]
    return ConfigLoader(dic)


def load(config, p4):
    n = p4[0].shape[0]
    extra = {"weight": np.ones(n), "charge_conjugation": np.ones(n)}
    data = config.data.cal_angle(list(p4), **extra)
    for k, v in extra.items():
        data[k] = v
    return data


def nll_grad(config, p4, p4mc):
    model = config._get_model()[0]
    fcn = FCN(model, load(config, p4), load(config, p4mc), batch=65000)
    nll, g = fcn.nll_grad({})
    return type(model).__name__, float(nll), np.array(g), model


def main():
    p4, p4mc = gen_p4(40, 1), gen_p4(300, 5)
    failed = False
    for fml in [False, True]:
        c0 = make(fml)
        rng = np.random.RandomState(3)
        params = dict(c0.get_params())
        for k in sorted(c0.get_params(trainable_only=True)):
            params[k] = float(rng.uniform(0.3, 1.5)) if k.endswith("r") else float(rng.uniform(-2, 2))
        c0.set_params(params)
        _, n0, g0, _ = nll_grad(c0, p4, p4mc)
        amp = c0.get_amplitude()
        f, fmc = amp(load(c0, p4)).numpy(), amp(load(c0, p4mc)).numpy()
        n_np = -np.sum(np.log(f)) + len(f) * np.log(np.mean(fmc))
        print("force_min_l:", fml)
        print("  expected NLL (default Model)            :", n0)
        print("  expected NLL (numpy from eager density) :", n_np)
        print("  expected integral  mean f(mc)           :", np.mean(fmc))
        assert abs(n0 - n_np) < 1e-8
        c1 = make(fml, cached_int=True)
        c1.set_params(params)
        name, n1, g1, model = nll_grad(c1, p4, p4mc)
        int_mc = [float(v()) for v in model.cached_int.values()]
        print("  observed cached integral (ModelCachedInt):", int_mc)
        print("  observed NLL data:{cached_int: True} (%s): %.12f   diff %.3e   max |grad diff| %.3e" % (name, n1, n1 - n0, np.max(np.abs(g1 - g0))))
        if fml and (abs(n1 - n0) > 1e-6 or np.max(np.abs(g1 - g0)) > 1e-6):
            failed = True
        if not fml:
            assert abs(n1 - n0) < 1e-8, "sanity check without force_min_l failed"
    if failed:
        print("VIOLATION: cached integral evaluated with the wrong barrier factor for force_min_l decays")
        sys.exit(1)
    print("no violation")
    sys.exit(0)


main()
