"""
C11 finding 2: HelicityAngle.generate_p_mass(name, m) silently ignores the
requested invariant mass when `name` is the particle OBJECT instead of its
string name.

HelicityAngle.generate_p_mass builds `self.get_all_mass({name: m})`
(tf_pwa/data_trans/helicity_angle.py:87) and get_all_mass tests
`str(j) in replace_mass` (line 76): with a particle object as key the string
never matches, the nominal mass j.get_mass() is used for every event and the
returned momenta have M_R = nominal mass instead of the requested m - no
error, no warning.  The sibling methods accept the object: get_mass_range /
mass_linspace do `name = str(name)`, HelicityAngle1.generate_p_mass compares
`str(i.core) != str(name)`, and DecayGroup.get_decay_chain (used by
ParticleFunction to obtain the chain from the same `name`) accepts a
BaseParticle (or an int), so ParticleFunction(config, particle)(m) evaluates
the line shape at the nominal mass for every m.

Expected (numpy, independent): the invariant mass of B+C of the generated
momenta equals the requested m, as it does for the string name and for
HelicityAngle1 with the same object.
"""
import sys

import numpy as np
import tensorflow as tf

from tf_pwa.angle import LorentzVector as lv
from tf_pwa.data_trans.helicity_angle import HelicityAngle, HelicityAngle1
from tf_pwa.particle import BaseDecay, BaseParticle, DecayChain


class P(BaseParticle):
    def get_mass(self):
        return self.mass


a, r, b, c, d = [
    P(n, mass=m)
    for n, m in zip("ARBCD", [5.3, 2.0, 0.5, 0.14, 0.94])
]
chain = DecayChain(
    [BaseDecay(a, [r, d], disable=True), BaseDecay(r, [b, c], disable=True)]
)
m_req = np.array([1.0, 1.5, 3.0])  # inside (0.64, 4.36)


def m_bc(p4):
    pbc = (p4[b] + p4[c]).numpy()
    return np.sqrt(pbc[..., 0] ** 2 - np.sum(pbc[..., 1:] ** 2, axis=-1))


ha = HelicityAngle(chain)
ha1 = HelicityAngle1(chain)
print("requested m(R)                          :", m_req)
print("mass range by str / by object           :", ha.get_mass_range("R"), ha.get_mass_range(r))
out_str = m_bc(ha.generate_p_mass("R", m_req))
out_obj = m_bc(ha.generate_p_mass(r, m_req))
out_obj1 = m_bc(ha1.generate_p_mass(r, m_req))
print("HelicityAngle.generate_p_mass('R', m)   :", out_str)
print("HelicityAngle1.generate_p_mass(R_obj, m):", out_obj1)
print("HelicityAngle.generate_p_mass(R_obj, m) :", out_obj, " <- observed")
print("expected                                :", m_req)

# extraction through the library itself gives the same (wrong) number
ms2, _, _ = ha.find_variable(ha.cal_angle(ha.generate_p_mass(r, m_req)))
print("find_variable mass of R                 :", ms2[r].numpy())

bad = not np.allclose(out_obj, m_req, atol=1e-9)
assert np.allclose(out_str, m_req, atol=1e-9)
assert np.allclose(out_obj1, m_req, atol=1e-9)
print("VIOLATION" if bad else "ok")
sys.exit(1 if bad else 0)
