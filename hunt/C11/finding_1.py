"""
C11 finding 1: the helicity-angle round trip is not invariant under a change of
the unit of mass/momentum.  Vector3.cross_unit (tf_pwa/angle.py:57-67) decides
"the two vectors are collinear" with the ABSOLUTE test |a x b| < 1e-14 on
un-normalised vectors.  cal_helicity_angle passes raw rest-frame momenta as z
axes (set_z[j] = z2, cal_angle.py:299), so for a nested decay the tested number
is |p_R| * |p_B| * sin(theta).  When all masses are expressed in a unit in which
they are ~1e-8 (everything else unchanged, all masses well inside the allowed
ranges, generic angles), the test fires for perfectly non-collinear vectors, the
cross product is replaced by a x (b + 1) and cos(theta), phi of the sub-decay
come out wrong by O(1).

Expected: helicity angles are dimensionless, so build_data -> cal_angle ->
find_variable must return the input angles for every overall mass scale (the
same inputs at scale 1 are returned to 1e-14).
"""
import sys

import numpy as np
import tensorflow as tf

from tf_pwa.data_trans.helicity_angle import HelicityAngle
from tf_pwa.particle import BaseDecay, BaseParticle, DecayChain


def run(scale, cos_sub=None):
    a, r, b, c, d = [BaseParticle(i) for i in ["A", "R", "B", "C", "D"]]
    chain = DecayChain(
        [
            BaseDecay(a, [r, d], disable=True),
            BaseDecay(r, [b, c], disable=True),
        ]
    )
    n = 5
    rng = np.random.default_rng(3)
    m = {a: 5.3, r: None, b: 0.5, c: 0.14, d: 0.94}
    ms = {k: tf.constant(np.full(n, v * scale)) for k, v in m.items() if v}
    # m_R uniformly inside (m_B + m_C, m_A - m_D) = (0.64, 4.36)
    ms[r] = tf.constant(rng.uniform(1.0, 4.0, n) * scale)
    cos = [rng.uniform(-0.9, 0.9, n) for _ in range(2)]
    phi = [rng.uniform(-3.0, 3.0, n) for _ in range(2)]
    if cos_sub is not None:
        cos[1] = np.full(n, cos_sub)
    ha = HelicityAngle(chain)
    p4 = ha.build_data(ms, cos, phi)
    ms2, cos2, phi2 = ha.find_variable(ha.cal_angle(p4))
    err_m = max(
        float(np.max(np.abs(ms2[k].numpy() - ms[k].numpy()))) / scale
        for k in ms
    )
    return cos, phi, [i.numpy() for i in cos2], [i.numpy() for i in phi2], err_m


bad = False
for scale, cos_sub in [
    (1.0, None),
    (1.0, 0.999999),
    (1e-3, None),
    (1e-6, 0.999999),
    (1e-8, None),
]:
    cos, phi, cos2, phi2, err_m = run(scale, cos_sub)
    e_cos = max(np.max(np.abs(x - y)) for x, y in zip(cos, cos2))
    e_phi = max(
        np.max(np.abs((x - y + np.pi) % (2 * np.pi) - np.pi))
        for x, y in zip(phi, phi2)
    )
    print(
        "scale %-6g cos_sub %-9s max|cos_out-cos_in| = %.3e  max|phi_out-phi_in| = %.3e  "
        "relative mass error = %.1e" % (scale, cos_sub, e_cos, e_phi, err_m)
    )
    if scale == 1e-8:
        print("  input  cos(R->B C) :", cos[1])
        print("  output cos(R->B C) :", cos2[1])
        print("  input  phi(R->B C) :", phi[1])
        print("  output phi(R->B C) :", phi2[1])
    if not (e_cos < 1e-8 and e_phi < 1e-8):
        bad = True
print("expected: all differences ~1e-14 for every scale (angles are scale free)")
print("VIOLATION" if bad else "ok")
sys.exit(1 if bad else 0)
