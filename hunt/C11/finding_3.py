"""
C11 finding 3: Dalitz.generate_p / dalitz.generate_p silently drop to float32
when the Dalitz variables are plain python floats.

tf_pwa/data_trans/dalitz.py:_generate_fun0 mixes python arithmetic with
`tensorflow.sqrt`.  `sqrt(<python float>)` creates a float32 tensor, and
`tf.zeros_like(E1)` / `tf.stack([...])` in generate_p (lines 80-87) then cast
the exactly computed python-float energies to float32 as well.  The returned
momenta are float32 and reproduce m12^2, m23^2 and the particle masses only to
~1e-7 (1e8 times worse than the same call with numpy float64 inputs), without
any warning.  All masses are python floats in `Dalitz(m0, m1, m2, m3)` anyway,
so a single scalar point is the most natural call.

Expected: (p1+p2)^2 = m12sq, (p2+p3)^2 = m23sq, p_i^2 = m_i^2 to float64
round-off, as obtained from the same formula evaluated in numpy and from the
library itself when the two numbers are wrapped in np.float64 / np.array.
"""
import sys

import numpy as np

from tf_pwa.data_trans.dalitz import Dalitz

m0, m1, m2_, m3 = 1.86, 0.493, 0.493, 0.139
s12, s23 = 1.3**2, 1.23**2  # inside the Dalitz plot (same point as test_dalitz.py)


def m2(p):
    p = np.asarray(p, dtype=np.float64)
    return p[..., 0] ** 2 - np.sum(p[..., 1:] ** 2, axis=-1)


def report(tag, ps):
    p1, p2, p3 = [np.asarray(i) for i in ps]
    errs = [
        abs(m2(p1 + p2) - s12),
        abs(m2(p2 + p3) - s23),
        abs(m2(p1) - m1**2),
        abs(m2(p2) - m2_**2),
        abs(m2(p3) - m3**2),
        abs(m2(p1 + p2 + p3) - m0**2),
    ]
    print(
        "%-28s dtype=%-8s |s12 err|=%.2e |s23 err|=%.2e max mass^2 err=%.2e"
        % (tag, p1.dtype, np.max(errs[0]), np.max(errs[1]), np.max(errs[2:]))
    )
    return float(np.max(errs))


d = Dalitz(m0, m1, m2_, m3)
e_f64 = report("np.float64 scalars", d.generate_p(np.float64(s12), np.float64(s23)))
e_arr = report("np.array([..])", d.generate_p(np.array([s12]), np.array([s23])))
e_py = report("python floats  <- observed", d.generate_p(s12, s23))
print("expected: errors ~1e-15 for all three input representations")
bad = e_py > 1e-10
assert e_f64 < 1e-12 and e_arr < 1e-12
print("VIOLATION" if bad else "ok")
sys.exit(1 if bad else 0)
