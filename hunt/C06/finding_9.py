"""finding 9: data: {extended: True} is silently ignored by model: simple / simple_clip (the overall scale is even freed by
free_for_extended, leaving a flat direction) and by cached_amp / cached_int: no lambda term is added."""
import os, sys, copy, gc
os.environ.setdefault("TF_CPP_MIN_LOG_LEVEL", "3")
os.environ.setdefault("CUDA_VISIBLE_DEVICES", "")
import warnings; warnings.filterwarnings("ignore")
import numpy as np
np.Inf = np.inf
import tensorflow as tf
from tf_pwa.config_loader import ConfigLoader
from tf_pwa.applications import gen_mc
from tf_pwa.data import data_shape

D = os.path.join(os.path.dirname(os.path.abspath(__file__)), "finding_data")
MASSES = [2.00698, 2.01028, 0.13957]


def gen_files():
    """deterministic toy samples (fixed seeds), written once"""
    if os.path.exists(D + "/done"):
        return
    os.makedirs(D, exist_ok=True)
    rng = np.random.RandomState(1234)
    np.random.seed(1234)
    tf.random.set_seed(1234)
    sizes = dict(data1=137, data2=91, data3=137, phsp1=1013, phsp2=777, phsp3=1013, bg1=59, bg2=43)
    for k, n in sizes.items():
        p = gen_mc(4.6, MASSES, n)
        np.savetxt(f"{D}/{k}.dat", np.array(p).reshape(-1, 4))
        np.savetxt(f"{D}/{k}_w.dat", rng.uniform(0.2, 1.8, n))
        np.savetxt(f"{D}/{k}_eff.dat", rng.uniform(0.3, 1.0, n))
        np.savetxt(f"{D}/{k}_bgv.dat", rng.uniform(0.5, 1.5, n))
        np.savetxt(f"{D}/{k}_charge.dat", np.where(rng.rand(n) < 0.5, 1.0, -1.0))
    for k, n in dict(id_data=101, id_phsp=503).items():
        p = gen_mc(4.6, [MASSES[0], MASSES[0], MASSES[2]], n)
        np.savetxt(f"{D}/{k}.dat", np.array(p).reshape(-1, 4))
    open(D + "/done", "w").write("1")


BASE = {
    "data": {
        "dat_order": ["B", "C", "D"],
        "data": [f"{D}/data1.dat"],
        "phsp": [f"{D}/phsp1.dat"],
        "random_z": False,
        "r_boost": False,
    },
    "decay": {
        "A": [["R_BC", "D"], ["R_BD", "C"], ["R_CD", "B"]],
        "R_BC": ["B", "C"],
        "R_BD": ["B", "D"],
        "R_CD": ["C", "D"],
    },
    "particle": {
        "$top": {"A": {"J": 1, "P": -1, "spins": [-1, 1], "mass": 4.6}},
        "$finals": {
            "B": {"J": 1, "P": -1, "mass": MASSES[0]},
            "C": {"J": 1, "P": -1, "mass": MASSES[1]},
            "D": {"J": 0, "P": -1, "mass": MASSES[2]},
        },
        "R_BC": {"J": 1, "Par": 1, "m0": 4.16, "g0": 0.1},
        "R_BD": {"J": 1, "Par": 1, "m0": 2.43, "g0": 0.3},
        "R_CD": {"J": 1, "Par": 1, "m0": 2.42, "g0": 0.03},
    },
    "constrains": {"particle": None, "decay": None},
}


def make_dict(data_opts=None, top=None):
    gen_files()
    c = copy.deepcopy(BASE)
    if data_opts:
        c["data"].update(data_opts)
    if top:
        c.update(copy.deepcopy(top))
    return c


def make_config(data_opts=None, top=None, seed=7):
    c = make_dict(data_opts, top)
    np.random.seed(seed)
    tf.random.set_seed(seed)
    return ConfigLoader(c)


def set_random_params(cfg, seed=11):
    """deterministic non-trivial parameter point (all trainable r/i components)"""
    amp = cfg.get_amplitude()
    rng = np.random.RandomState(seed)
    new = {}
    for k in sorted(amp.get_params()):
        if k.endswith("r"):
            new[k] = float(rng.uniform(0.5, 2.0))
        elif k.endswith("i"):
            new[k] = float(rng.uniform(-3, 3))
    tv = set(amp.vm.trainable_vars)
    new = {k: v for k, v in new.items() if k in tv}
    cfg.set_params(new)
    return new


def w_of(d):
    n = data_shape(d)
    w = d.get("weight", None)
    return np.ones(n) if w is None else np.array(w, dtype=np.float64) * np.ones(n)


def ref_nll_default(amp, data, phsp, bg=None):
    """-alpha [ sum w ln f - (sum w) ln( sum v f / sum v ) ], bg rows carry their (negative) weights"""
    f = np.array(amp(data)); w = w_of(data)
    if bg is not None:
        f = np.concatenate([f, np.array(amp(bg))]); w = np.concatenate([w, w_of(bg)])
    fm = np.array(amp(phsp)); v = w_of(phsp)
    alpha = w.sum() / (w**2).sum()
    return -alpha * ((w * np.log(f)).sum() - w.sum() * np.log((v * fm).sum() / v.sum()))


def ref_nll_cfit(amp, d, mc, fb, use_data_eff=True):
    """-alpha sum w ln[(1-fb) eff A / I_sig + fb B / I_bg]"""
    w = w_of(d); w = w * w.sum() / (w**2).sum()
    eff_d = np.array(d.get("eff_value", 1.0)) if use_data_eff else 1.0
    s = np.array(amp(d)) * eff_d; b = np.array(d.get("bg_value", 1.0)) * np.ones_like(s)
    smc = np.array(amp(mc)) * np.array(mc.get("eff_value", 1.0)); v = w_of(mc)
    bmc = np.array(mc.get("bg_value", 1.0)) * np.ones_like(smc)
    Is = (v * smc).sum() / v.sum(); Ib = (v * bmc).sum() / v.sum()
    return -(w * np.log((1 - fb) * s / Is + fb * b / Ib)).sum()


def report(name, observed, expected, tol=1e-6):
    bad = (not np.isfinite(observed)) or abs(observed - expected) > tol * max(1.0, abs(expected))
    print(f"{name}: observed = {observed:.10f}   expected = {expected:.10f}   -> {'VIOLATION' if bad else 'ok'}")
    return bad

one = {"bg": [f"{D}/bg1.dat"], "bg_weight": 0.3, "data_weight": f"{D}/data1_w.dat"}
cfgd = make_config({**one, "extended": True})
set_random_params(cfgd)
amp = cfgd.get_amplitude()
pars = amp.get_params()
ext = float(cfgd.get_fcn(batch=50)({}))
print("default model, extended: True ->", ext)
bad = False
for m in [{"model": "simple"}, {"model": "simple_clip"}, {"cached_amp": True}, {"cached_int": True}]:
    cfg = make_config({**one, "extended": True, **m})
    cfg.get_amplitude(); cfg.set_params(pars)
    f = cfg.get_fcn(batch=50)
    bad |= report(f"{m} fcn({{}})", float(f({})), ext)
    bad |= report(f"{m} nll_grad[0]", float(f.nll_grad({})[0]), ext)
sys.exit(1 if bad else 0)
