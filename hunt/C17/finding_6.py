"""C17 finding 6 (outside the anchored files, tf_pwa/experimental/factor_system.py): the
factor-system partial amplitudes (get_all_partial_amp -> partial_amp) use the context manager
temp_var(vm), which (i) has no try/finally - an exception inside the partial amplitude leaves
all "other" factors at 0.0 - and (ii) saves the parameters with vm.get_all_dic(), which reads
*through* an active mask, so when it runs inside a masked-parameter block it writes the masked
value (0.0) into the variable for good."""
import sys
import numpy as np
np.Inf = np.inf
import tensorflow as tf
import yaml
from tf_pwa import set_random_seed
from tf_pwa.config_loader import ConfigLoader
from tf_pwa.experimental import factor_system as fs
from tf_pwa.phasespace import PhaseSpaceGenerator

CFG = yaml.safe_load("""
data:
  dat_order: [B, C, D]
decay:
  A:
    - [R_BC, D]
    - [R_BD, C]
    - [R_CD, B]
  R_BC: [B, C]
  R_BD: [B, D]
  R_CD: [C, D]
particle:
  $top:
    A: { J: 1, P: -1, spins: [-1, 1], mass: 4.6 }
  $finals:
    B: { J: 1, P: -1, mass: 2.00698 }
    C: { J: 1, P: -1, mass: 2.01028 }
    D: { J: 0, P: -1, mass: 0.13957 }
  R_BC: { J: 1, Par: 1, m0: 4.16, g0: 0.1 }
  R_BD: { J: 1, Par: 1, m0: 2.43, g0: 0.3 }
  R_CD: { J: 1, Par: 1, m0: 2.42, g0: 0.03 }
""")
set_random_seed(1)
config = ConfigLoader(CFG)
amp = config.get_amplitude()
p = PhaseSpaceGenerator(4.6, [2.00698, 2.01028, 0.13957]).generate(100)
data = config.data.cal_angle([tf.constant(np.array(i), dtype=tf.float64) for i in p])
before = amp(data).numpy()
p0 = {k: float(v) for k, v in amp.get_params().items()}
bad = 0


def report(tag):
    global bad
    p1 = {k: float(v) for k, v in amp.get_params().items()}
    changed = {k: (p0[k], p1[k]) for k in p0 if p0[k] != p1[k]}
    r = float(np.max(np.abs(amp(data).numpy() - before) / before))
    print(tag)
    print("    parameters changed  observed:", changed, "  expected: {}")
    print("    max rel. change of the density  observed: %.3e   expected: 0" % r)
    bad += bool(changed) or r > 1e-7
    amp.set_params(p0)


# (i) exception inside the computation (second density evaluation fails)
dg = amp.decay_group
orig = dg.sum_amp
count = {"n": 0}


def failing(d, cached=True):
    count["n"] += 1
    if count["n"] > 1:
        raise RuntimeError("injected")
    return orig(d)


dg.sum_amp = failing
try:
    fs.get_all_partial_amp(amp, data, ["g_ls"])
except RuntimeError as e:
    print("raised:", e)
finally:
    del dg.sum_amp
report("(i) exception inside get_all_partial_amp")

# (ii) normal end, but nested in a masked-parameter block
with amp.mask_params({"A->R_BC.D_g_ls_1r": 0.0}):
    fs.get_all_partial_amp(amp, data, ["g_ls"])
report("(ii) get_all_partial_amp inside amp.mask_params({...: 0.0}), both end normally")
sys.exit(1 if bad else 0)
