"""C17 finding 2: AmplitudeModel.temp_params / VarsManager.temp_params apply the temporary
values *outside* their try/finally.  If applying them raises half-way (one bad value, a
too-short list of trainable values, a value of the wrong shape) the values that were already
assigned stay in the model although the with-block was never entered and the exception
propagates to the caller: the temporary-parameter block ends by an exception and leaves the
model changed."""
import sys
import numpy as np
np.Inf = np.inf
import tensorflow as tf
import yaml
from tf_pwa import set_random_seed
from tf_pwa.config_loader import ConfigLoader
from tf_pwa.phasespace import PhaseSpaceGenerator

CFG = yaml.safe_load("""
data:
  dat_order: [B, C, D]
decay:
  A:
    - [R_BC, D]
    - [R_BD, C]
    - [R_CD, B]
  R_BC: [B, C]
  R_BD: [B, D]
  R_CD: [C, D]
particle:
  $top:
    A: { J: 1, P: -1, spins: [-1, 1], mass: 4.6 }
  $finals:
    B: { J: 1, P: -1, mass: 2.00698 }
    C: { J: 1, P: -1, mass: 2.01028 }
    D: { J: 0, P: -1, mass: 0.13957 }
  R_BC: { J: 1, Par: 1, m0: 4.16, g0: 0.1 }
  R_BD: { J: 1, Par: 1, m0: 2.43, g0: 0.3 }
  R_CD: { J: 1, Par: 1, m0: 2.42, g0: 0.03 }
""")
set_random_seed(1)
config = ConfigLoader(CFG)
amp = config.get_amplitude()
p = PhaseSpaceGenerator(4.6, [2.00698, 2.01028, 0.13957]).generate(100)
data = config.data.cal_angle([tf.constant(np.array(i), dtype=tf.float64) for i in p])

before = amp(data).numpy()
p0 = {k: float(v) for k, v in amp.get_params().items()}
names = list(amp.vm.trainable_vars)
bad = 0


def report(tag):
    global bad
    p1 = {k: float(v) for k, v in amp.get_params().items()}
    changed = {k: (p0[k], p1[k]) for k in p0 if p0[k] != p1[k]}
    r = float(np.max(np.abs(amp(data).numpy() - before) / before))
    print(tag)
    print("    number of parameters changed after the failed block: %d (expected 0); first: %s" % (len(changed), list(changed.items())[:1]))
    print("    max rel. change of the density: %.3e   expected: 0" % r)
    bad += bool(changed) or r > 1e-7
    amp.set_params(p0)


# (a) dict with one unusable value (e.g. from a hand-edited params json)
try:
    with amp.temp_params({names[0]: 9.0, names[1]: "1.0e-1x"}):
        pass
except Exception as e:
    print("raised:", type(e).__name__)
report("(a) AmplitudeModel.temp_params({good: 9.0, other: <bad string>})")

# (b) list of trainable values that is too short (e.g. x from a fit with one parameter fewer)
x = [i + 1.0 for i in amp.vm.get_all_val()][:-1]
try:
    with amp.temp_params(x):
        pass
except Exception as e:
    print("raised:", type(e).__name__)
report("(b) AmplitudeModel.temp_params(list shorter than trainable_vars)")

# (c) VarsManager.temp_params
try:
    with amp.vm.temp_params({names[0]: 9.0, names[1]: [1.0, 2.0]}):
        pass
except Exception as e:
    print("raised:", type(e).__name__)
report("(c) VarsManager.temp_params({good: 9.0, other: wrong shape})")

sys.exit(1 if bad else 0)
