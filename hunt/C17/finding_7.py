"""C17 finding 7 (tf_pwa/amp/core.py, HelicityDecay._get_particle_mass; announced only by a
UserWarning): for a resonance without a mass (e.g. model "one" without m0) the first
computation that touches the model writes p.mass = mean(m) *of the events it was given* into
the particle.  Partial weights of a side-band sample therefore change a hidden model parameter
(None -> 2.50) and with it the density of every other event, although get_params() and
chains_idx are identical: two models with identical parameters give densities that differ by
tens of percent, depending only on which sample a read-only computation saw first."""
import sys, warnings
import numpy as np
np.Inf = np.inf
import tensorflow as tf
import yaml
from tf_pwa import set_random_seed
from tf_pwa.config_loader import ConfigLoader
from tf_pwa.phasespace import PhaseSpaceGenerator

CFG = yaml.safe_load("""
data:
  dat_order: [B, C, D]
decay:
  A:
    - [R_BC, D]
    - [R_BD, C]
    - [R_CD, B]
  R_BC: [B, C]
  R_BD: [B, D]
  R_CD: [C, D]
particle:
  $top:
    A: { J: 1, P: -1, spins: [-1, 1], mass: 4.6 }
  $finals:
    B: { J: 1, P: -1, mass: 2.00698 }
    C: { J: 1, P: -1, mass: 2.01028 }
    D: { J: 0, P: -1, mass: 0.13957 }
  R_BC: { J: 1, Par: 1, m0: 4.16, g0: 0.1 }
  R_BD: { J: 1, Par: 1, model: one }
  R_CD: { J: 1, Par: 1, m0: 2.42, g0: 0.03 }
""")
warnings.simplefilter("ignore")


def build():
    set_random_seed(1)
    config = ConfigLoader(CFG)
    return config, config.get_amplitude()


set_random_seed(7)
pp = [np.array(i) for i in PhaseSpaceGenerator(4.6, [2.00698, 2.01028, 0.13957]).generate(2000)]
pbd = pp[0] + pp[2]
m_bd = np.sqrt(pbd[:, 0] ** 2 - np.sum(pbd[:, 1:] ** 2, axis=-1))
events = [tf.constant(i[:100], dtype=tf.float64) for i in pp]
sideband = [tf.constant(i[m_bd > np.median(m_bd) + 0.05], dtype=tf.float64) for i in pp]

c1, amp1 = build()
c2, amp2 = build()
assert {k: float(v) for k, v in amp1.get_params().items()} == {k: float(v) for k, v in amp2.get_params().items()}
d1, d2, sb2 = c1.data.cal_angle(events), c2.data.cal_angle(events), c2.data.cal_angle(sideband)

expected = amp1(d1).numpy()          # model 1: density of the events
amp2.partial_weight(sb2)             # model 2: a read-only computation on another sample first ...
observed = amp2(d2).numpy()          # ... then the density of the same events
same_params = {k: float(v) for k, v in amp1.get_params().items()} == {k: float(v) for k, v in amp2.get_params().items()}
m1 = float(amp1.decay_group.get_particle("R_BD").mass)
m2 = float(amp2.decay_group.get_particle("R_BD").mass)
r = float(np.max(np.abs(observed - expected) / expected))
print("get_params() identical:", same_params, "  chains:", amp1.decay_group.chains_idx, amp2.decay_group.chains_idx)
print("hidden R_BD mass   model 1: %.6f   model 2 (after partial_weight on the side band): %.6f" % (m1, m2))
print("density of event 0  observed: %.8g   expected: %.8g" % (observed[0], expected[0]))
print("max rel. difference of the density  observed: %.3e   expected: 0" % r)
sys.exit(1 if r > 1e-7 else 0)
