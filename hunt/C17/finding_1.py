"""C17 finding 1: with `use_tf_function: True` a density evaluated inside a masked-parameter
block (amp.mask_params / vm.mask_params / factor_iteration on a one-chain group /
temp_total_gls_one) is traced by WrapFun with the mask baked in as a constant; the trace is
cached and re-used after the block has been left, so AmplitudeModel(data) stays masked."""
import sys, copy
import numpy as np
np.Inf = np.inf
import tensorflow as tf
import yaml
from tf_pwa import set_random_seed
from tf_pwa.config_loader import ConfigLoader
from tf_pwa.phasespace import PhaseSpaceGenerator

CFG = yaml.safe_load("""
data:
  dat_order: [B, C, D]
  use_tf_function: True
decay:
  A:
    - [R_BC, D]
    - [R_BD, C]
    - [R_CD, B]
  R_BC: [B, C]
  R_BD: [B, D]
  R_CD: [C, D]
particle:
  $top:
    A: { J: 1, P: -1, spins: [-1, 1], mass: 4.6 }
  $finals:
    B: { J: 1, P: -1, mass: 2.00698 }
    C: { J: 1, P: -1, mass: 2.01028 }
    D: { J: 0, P: -1, mass: 0.13957 }
  R_BC: { J: 1, Par: 1, m0: 4.16, g0: 0.1 }
  R_BD: { J: 1, Par: 1, m0: 2.43, g0: 0.3 }
  R_CD: { J: 1, Par: 1, m0: 2.42, g0: 0.03 }
""")


def build(one_chain=False):
    set_random_seed(1)
    cfg = copy.deepcopy(CFG)
    if one_chain:
        cfg["decay"]["A"] = [["R_BC", "D"]]
        del cfg["decay"]["R_BD"], cfg["decay"]["R_CD"]
    config = ConfigLoader(cfg)
    amp = config.get_amplitude()
    p = PhaseSpaceGenerator(4.6, [2.00698, 2.01028, 0.13957]).generate(100)
    p = [tf.constant(np.array(i), dtype=tf.float64) for i in p]
    return amp, config.data.cal_angle(p)


def rel(a, b):
    return float(np.max(np.abs(a - b) / np.abs(b)))


bad = 0

# (a) amp.mask_params
amp, data = build()
before = amp(data).numpy()  # first call only registers id(data)
params0 = amp.get_params()
name = "A->R_BC.D_g_ls_1r"
with amp.mask_params({name: 0.0}):
    amp(data)  # second call with the same data: traced, mask baked in
after = amp(data).numpy()
eager = amp.pdf(data).numpy()
print("(a) mask_params: params unchanged:", params0 == amp.get_params(),
      " chains:", amp.decay_group.chains_idx, " mask_vars:", amp.vm.mask_vars)
print("    observed max rel. change of density after the block: %.3e   expected: 0" % rel(after, before))
print("    (eager amp.pdf(data) vs before: %.3e)" % rel(eager, before))
bad += rel(after, before) > 1e-7

# (b) temp_total_gls_one
amp, data = build()
before = amp(data).numpy()
with amp.temp_total_gls_one():
    amp(data)
after = amp(data).numpy()
print("(b) temp_total_gls_one: observed max rel. change after the block: %.3e   expected: 0" % rel(after, before))
bad += rel(after, before) > 1e-7

# (c) factor_iteration on a decay group with a single chain
amp, data = build(one_chain=True)
before = amp(data).numpy()
for chain, mask in amp.factor_iteration():
    amp(data)
after = amp(data).numpy()
print("(c) factor_iteration, one-chain group: observed max rel. change afterwards: %.3e   expected: 0" % rel(after, before))
bad += rel(after, before) > 1e-7

sys.exit(1 if bad else 0)
