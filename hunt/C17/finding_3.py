"""C17 finding 3: CachedShapeAmplitudeModel.pdf (amp_model: cached_shape) narrows the active
chains to the chains without a cached shape, builds their parameter vector and widens the
selection again - without try/finally.  An exception raised while the density is computed
(here injected into DecayChain.get_m_dep; a KeyboardInterrupt or an OOM error does the same)
leaves decay_group.chains_idx on the narrowed selection, and every later density, partial
weight or fit fraction is computed from that subset only."""
import sys
import numpy as np
np.Inf = np.inf
import tensorflow as tf
import yaml
from tf_pwa import set_random_seed
from tf_pwa.config_loader import ConfigLoader
from tf_pwa.phasespace import PhaseSpaceGenerator

CFG = yaml.safe_load("""
data:
  dat_order: [B, C, D]
  preprocessor: cached_shape
  amp_model: cached_shape
decay:
  A:
    - [R_BC, D]
    - [R_BD, C]
    - [R_CD, B]
  R_BC: [B, C]
  R_BD: [B, D]
  R_CD: [C, D]
particle:
  $top:
    A: { J: 1, P: -1, spins: [-1, 1], mass: 4.6 }
  $finals:
    B: { J: 1, P: -1, mass: 2.00698 }
    C: { J: 1, P: -1, mass: 2.01028 }
    D: { J: 0, P: -1, mass: 0.13957 }
  R_BC: { J: 1, Par: 1, m0: 4.16, g0: 0.1, float: mg }
  R_BD: { J: 1, Par: 1, m0: 2.43, g0: 0.3 }
  R_CD: { J: 1, Par: 1, m0: 2.42, g0: 0.03 }
""")
set_random_seed(1)
config = ConfigLoader(CFG)
amp = config.get_amplitude()
p = PhaseSpaceGenerator(4.6, [2.00698, 2.01028, 0.13957]).generate(100)
data = config.data.cal_angle([tf.constant(np.array(i), dtype=tf.float64) for i in p])

chains_before = list(amp.decay_group.chains_idx)
before = amp(data).numpy()

chain_cls = type(amp.decay_group.chains[0])
orig = chain_cls.get_m_dep


def boom(self, *args, **kwargs):
    raise RuntimeError("injected inside the density computation")


chain_cls.get_m_dep = boom
try:
    amp(data)
except RuntimeError as e:
    print("raised:", e)
finally:
    chain_cls.get_m_dep = orig

chains_after = list(amp.decay_group.chains_idx)
after = amp(data).numpy()
r = float(np.max(np.abs(after - before) / before))
print("active chains  observed:", chains_after, "  expected:", chains_before)
print("max rel. change of the density  observed: %.3e   expected: 0" % r)
sys.exit(1 if (chains_after != chains_before or r > 1e-7) else 0)
