"""C17 finding 5 (derived computation in tf_pwa/applications.py, not one of the four named
computations): cal_hesse_correct - reached through
ConfigLoader.get_params_error(params, method="correct", correct_params=[...]) - evaluates the
NLL at displaced points with fcn(x), which writes x into the model, and never writes the
original point back.  After the error matrix has been computed the corrected parameter and the
last trainable parameter are left displaced by 1e-3, so every later density is changed."""
import sys
import numpy as np
np.Inf = np.inf
import tensorflow as tf
import yaml
from tf_pwa import set_random_seed
from tf_pwa.config_loader import ConfigLoader
from tf_pwa.phasespace import PhaseSpaceGenerator

CFG = yaml.safe_load("""
data:
  dat_order: [B, C, D]
decay:
  A:
    - [R_BC, D, l_list: [0]]
    - [R_BD, C, l_list: [0]]
  R_BC: [B, C, l_list: [0]]
  R_BD: [B, D]
particle:
  $top:
    A: { J: 1, P: -1, spins: [-1, 1], mass: 4.6 }
  $finals:
    B: { J: 1, P: -1, mass: 2.00698 }
    C: { J: 1, P: -1, mass: 2.01028 }
    D: { J: 0, P: -1, mass: 0.13957 }
  R_BC: { J: 1, Par: 1, m0: 4.16, g0: 0.1 }
  R_BD: { J: 1, Par: 1, m0: 2.43, g0: 0.3 }
""")
set_random_seed(1)
config = ConfigLoader(CFG)
amp = config.get_amplitude()
gen = PhaseSpaceGenerator(4.6, [2.00698, 2.01028, 0.13957])


def sample(n):
    return config.data.cal_angle([tf.constant(np.array(i), dtype=tf.float64) for i in gen.generate(n)])


data, phsp = sample(60), sample(300)
before = amp(data).numpy()
p0 = {k: float(v) for k, v in amp.get_params().items()}
name = "A->R_BD.CR_BD->B.D_total_0r"
assert name in amp.vm.trainable_vars, amp.vm.trainable_vars
config.get_params_error(p0, data=[data], phsp=[phsp], bg=[None], inmc=[None],
                        method="correct", correct_params=[name])
p1 = {k: float(v) for k, v in amp.get_params().items()}
changed = {k: p1[k] - p0[k] for k in p0 if abs(p1[k] - p0[k]) > 1e-9}
r = float(np.max(np.abs(amp(data).numpy() - before) / before))
print("parameter shifts after get_params_error  observed:", changed, "  expected: {}")
print("max rel. change of the density  observed: %.3e   expected: 0" % r)
sys.exit(1 if (changed or r > 1e-7) else 0)
