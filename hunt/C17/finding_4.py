"""C17 finding 4 (outside the anchored files, tf_pwa/config_loader/plotter.py): PlotAllData
(config.get_all_plotdatas(res=...) / config.get_plotter(res=...)) computes the partial weights
of the requested resonance groups with amp.set_used_res(i) and then "restores" with
amp.set_used_res(amp.used_res).  amp.used_res is the list of *all* resonances stored once in
BaseAmplitudeModel.__init__ and never updated, so the set of active chains after the
computation is "all chains", not the set that was active before; there is no try/finally either."""
import sys
import numpy as np
np.Inf = np.inf
import tensorflow as tf
import yaml
from tf_pwa import set_random_seed
from tf_pwa.config_loader import ConfigLoader
from tf_pwa.config_loader.plotter import PlotAllData
from tf_pwa.data import LazyCall
from tf_pwa.phasespace import PhaseSpaceGenerator

CFG = yaml.safe_load("""
data:
  dat_order: [B, C, D]
decay:
  A:
    - [R_BC, D]
    - [R_BD, C]
    - [R_CD, B]
  R_BC: [B, C]
  R_BD: [B, D]
  R_CD: [C, D]
particle:
  $top:
    A: { J: 1, P: -1, spins: [-1, 1], mass: 4.6 }
  $finals:
    B: { J: 1, P: -1, mass: 2.00698 }
    C: { J: 1, P: -1, mass: 2.01028 }
    D: { J: 0, P: -1, mass: 0.13957 }
  R_BC: { J: 1, Par: 1, m0: 4.16, g0: 0.1 }
  R_BD: { J: 1, Par: 1, m0: 2.43, g0: 0.3 }
  R_CD: { J: 1, Par: 1, m0: 2.42, g0: 0.03 }
""")
set_random_seed(1)
config = ConfigLoader(CFG)
amp = config.get_amplitude()
p = PhaseSpaceGenerator(4.6, [2.00698, 2.01028, 0.13957]).generate(100)
data = config.data.cal_angle([tf.constant(np.array(i), dtype=tf.float64) for i in p])
lazy = LazyCall(lambda x: x, data)  # the plotter works on lazy data sets

bad = 0
# (a) a selection made by the user (e.g. to study the model without R_CD)
amp.set_used_res(["R_BC", "R_BD"])
chains_before = list(amp.decay_group.chains_idx)
before = amp(data).numpy()
PlotAllData(amp, lazy, lazy, res=["R_BC", "R_BD"])
chains_after = list(amp.decay_group.chains_idx)
after = amp(data).numpy()
r = float(np.max(np.abs(after - before) / before))
print("(a) active chains  observed:", chains_after, "  expected:", chains_before)
print("    max rel. change of the density  observed: %.3e   expected: 0" % r)
bad += chains_after != chains_before or r > 1e-7

# (b) inside a restricted-resonance block the selection is widened for the rest of the block
amp.decay_group.set_used_chains([0, 1, 2])
with amp.temp_used_res(["R_BC"]):
    inside_before = list(amp.decay_group.chains_idx)
    PlotAllData(amp, lazy, lazy, res=["R_BC", "R_BD"])
    inside_after = list(amp.decay_group.chains_idx)
print("(b) inside temp_used_res(['R_BC'])  observed:", inside_after, "  expected:", inside_before)
bad += inside_after != inside_before
sys.exit(1 if bad else 0)
