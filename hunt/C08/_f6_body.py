
"""
finding 6 (C08): bounds of a tied parameter are ignored unless they are declared
on the one name that happens to be the head of the tie.  fit_scipy/fit_minuit
look bounds up by the names in vm.trainable_vars only (the head); a bound
declared on any other member of the tie is dropped, so the (shared) value leaves
the declared range for every minimiser.
  case A: constrains.var_equal: [[R_BC_mass, R_BD_mass]], bounds on R_BD_mass
  case B: constrains.particle.equal.mass: [[R_BC, R_BD]] (documented form; here
          the head becomes the LAST listed particle), bounds on R_BC
"""
lo, hi = 4.0, 4.1
bad = False
for case in ["A", "B"]:
    cfg = base_config()
    free = {"J": 1, "Par": 1, "m0": 4.05, "g0": 0.1, "float": "m"}
    bounded = dict(free, params={"mass_min": lo, "mass_max": hi})
    if case == "A":
        cfg["particle"]["R_BC"] = dict(free); cfg["particle"]["R_BD"] = dict(bounded, g0=0.3)
        cfg["constrains"]["var_equal"] = [["R_BC_mass", "R_BD_mass"]]
        bname = "R_BD_mass"
    else:
        cfg["particle"]["R_BC"] = dict(bounded); cfg["particle"]["R_BD"] = dict(free, g0=0.3)
        cfg["constrains"]["particle"] = {"equal": {"mass": [["R_BC", "R_BD"]]}}
        bname = "R_BC_mass"
    for method in ["BFGS", "L-BFGS-B"]:
        c = build(cfg, seed=3)
        with quiet():
            res = c.fit(method=method, maxiter=15)
        p = res.params
        print("case", case, method, "bound_dic", c.bound_dic, "trainable masses", [k for k in c.vm.trainable_vars if k.endswith("_mass")])
        print("   R_BC_mass", float(p["R_BC_mass"]), "R_BD_mass", float(p["R_BD_mass"]),
              "| expected", bname, "inside [%g, %g]" % (lo, hi))
        if float(p["R_BC_mass"]) != float(p["R_BD_mass"]):
            print("   VIOLATION: tie broken"); bad = True
        if not (lo <= float(p[bname]) <= hi):
            print("   VIOLATION: bounded (tied) parameter outside its bounds"); bad = True
sys.exit(1 if bad else 0)
