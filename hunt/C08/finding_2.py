# ---- stand-alone preamble (toy data + model builder), identical in all finding_k.py ----
import os, sys, io, json, copy, contextlib, warnings
import numpy as np
np.Inf = np.inf  # NumPy-2 shim needed by tf_pwa/fit_improve.py
warnings.simplefilter("ignore")
os.environ.setdefault("TF_CPP_MIN_LOG_LEVEL", "3")
import tensorflow as tf
import yaml
from tf_pwa import set_random_seed
from tf_pwa.applications import gen_data, gen_mc
from tf_pwa.config_loader import ConfigLoader

HERE = os.path.dirname(os.path.abspath(__file__))
WORK = os.path.join(HERE, "finding_data")
TESTS = os.path.join(HERE, "tf_pwa", "tests")


@contextlib.contextmanager
def quiet():
    old = sys.stdout
    sys.stdout = io.StringIO()
    try:
        yield
    finally:
        sys.stdout = old


def base_config():
    """tf_pwa/tests/config_toy.yml reduced to the two chains A->R_BC D, A->R_BD C"""
    with open(os.path.join(TESTS, "config_toy.yml")) as f:
        c = yaml.safe_load(f)
    c.pop("plot", None)
    c["data"]["data"] = [os.path.join(WORK, "data.dat")]
    c["data"]["bg"] = [os.path.join(WORK, "bg.dat")]
    c["data"]["phsp"] = [os.path.join(WORK, "PHSP.dat")]
    c["decay"]["A"] = [["R_BC", "D"], ["R_BD", "C"]]
    c["decay"].pop("R_CD")
    c["particle"].pop("R_CD")
    c["constrains"] = {"particle": None, "decay": None}
    return c


def make_data():
    if os.path.exists(os.path.join(WORK, "bg.dat")):
        return
    os.makedirs(WORK, exist_ok=True)
    set_random_seed(1)
    with quiet():
        phsp = gen_mc(4.6, [2.00698, 2.01028, 0.13957], 3000)
        np.savetxt(os.path.join(WORK, "PHSP.dat"), phsp)
        with open(os.path.join(TESTS, "config_toy.yml")) as f:
            c = yaml.safe_load(f)
        c.pop("plot", None)
        config = ConfigLoader(c)
        config.set_params(os.path.join(TESTS, "gen_params.json"))
        gen_data(config.get_amplitude(), Ndata=400,
                 mcfile=os.path.join(WORK, "PHSP.dat"),
                 genfile=os.path.join(WORK, "data.dat"),
                 particles=config.get_dat_order())
        bg = gen_mc(4.6, [2.00698, 2.01028, 0.13957], 300)
        data = np.loadtxt(os.path.join(WORK, "data.dat"))
        np.savetxt(os.path.join(WORK, "data.dat"), np.concatenate([data, bg[:90]]))
        np.savetxt(os.path.join(WORK, "bg.dat"), bg)


def build(cfg, seed):
    """a freshly built model (own VarsManager), random initial values from `seed`"""
    set_random_seed(seed)
    with quiet():
        config = ConfigLoader(copy.deepcopy(cfg))
        config.get_amplitude()
    return config


def nll_of(config, params=None):
    with quiet():
        return float(config.get_fcn()(params if params is not None else {}))


make_data()
# ---- end of preamble ----

"""
finding 2 (C08): with CP-violating chain factors (decay_chain: {$all: {is_cp: True}},
documented in config.sample.yml) the complex factor is
(r + c*deltar) * exp(i*(phi + c*deltai)).  After the minimiser returns,
fit_scipy calls VarsManager.standard_complex(), which maps r<0 to (|r|, phi+pi)
but leaves deltar untouched - a different amplitude.  The returned parameters
(and the model) are therefore NOT the point whose NLL is reported.
"""
cfg = base_config()
cfg["decay_chain"] = {"$all": {"is_cp": True}}
bad = False
for method in ["BFGS", "L-BFGS-B"]:
    c = build(cfg, seed=1)
    start = nll_of(c)
    with quiet():
        res = c.fit(method=method, maxiter=3)
    nll_live = nll_of(c)
    nll_params = nll_of(c, {k: float(v) for k, v in res.params.items()})
    print("method", method, " start NLL", start)
    print("   FitResult.min_nll             (observed):", res.min_nll)
    print("   NLL at FitResult.params       (expected to be equal):", nll_params)
    print("   NLL of the live model         :", nll_live)
    r = float(res.params["A->R_BD.CR_BD->B.D_total_0r"]); dr = float(res.params["A->R_BD.CR_BD->B.D_total_0deltar"])
    print("   A->R_BD... total_0r, total_0deltar after fit:", r, dr)
    if abs(res.min_nll - nll_params) > 1e-7 * max(1.0, abs(nll_params)):
        print("   VIOLATION: reported minimum differs from NLL at returned parameters by", res.min_nll - nll_params)
        bad = True
sys.exit(1 if bad else 0)
