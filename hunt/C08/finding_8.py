# ---- stand-alone preamble (toy data + model builder), identical in all finding_k.py ----
import os, sys, io, json, copy, contextlib, warnings
import numpy as np
np.Inf = np.inf  # NumPy-2 shim needed by tf_pwa/fit_improve.py
warnings.simplefilter("ignore")
os.environ.setdefault("TF_CPP_MIN_LOG_LEVEL", "3")
import tensorflow as tf
import yaml
from tf_pwa import set_random_seed
from tf_pwa.applications import gen_data, gen_mc
from tf_pwa.config_loader import ConfigLoader

HERE = os.path.dirname(os.path.abspath(__file__))
WORK = os.path.join(HERE, "finding_data")
TESTS = os.path.join(HERE, "tf_pwa", "tests")


@contextlib.contextmanager
def quiet():
    old = sys.stdout
    sys.stdout = io.StringIO()
    try:
        yield
    finally:
        sys.stdout = old


def base_config():
    """tf_pwa/tests/config_toy.yml reduced to the two chains A->R_BC D, A->R_BD C"""
    with open(os.path.join(TESTS, "config_toy.yml")) as f:
        c = yaml.safe_load(f)
    c.pop("plot", None)
    c["data"]["data"] = [os.path.join(WORK, "data.dat")]
    c["data"]["bg"] = [os.path.join(WORK, "bg.dat")]
    c["data"]["phsp"] = [os.path.join(WORK, "PHSP.dat")]
    c["decay"]["A"] = [["R_BC", "D"], ["R_BD", "C"]]
    c["decay"].pop("R_CD")
    c["particle"].pop("R_CD")
    c["constrains"] = {"particle": None, "decay": None}
    return c


def make_data():
    if os.path.exists(os.path.join(WORK, "bg.dat")):
        return
    os.makedirs(WORK, exist_ok=True)
    set_random_seed(1)
    with quiet():
        phsp = gen_mc(4.6, [2.00698, 2.01028, 0.13957], 3000)
        np.savetxt(os.path.join(WORK, "PHSP.dat"), phsp)
        with open(os.path.join(TESTS, "config_toy.yml")) as f:
            c = yaml.safe_load(f)
        c.pop("plot", None)
        config = ConfigLoader(c)
        config.set_params(os.path.join(TESTS, "gen_params.json"))
        gen_data(config.get_amplitude(), Ndata=400,
                 mcfile=os.path.join(WORK, "PHSP.dat"),
                 genfile=os.path.join(WORK, "data.dat"),
                 particles=config.get_dat_order())
        bg = gen_mc(4.6, [2.00698, 2.01028, 0.13957], 300)
        data = np.loadtxt(os.path.join(WORK, "data.dat"))
        np.savetxt(os.path.join(WORK, "data.dat"), np.concatenate([data, bg[:90]]))
        np.savetxt(os.path.join(WORK, "bg.dat"), bg)


def build(cfg, seed):
    """a freshly built model (own VarsManager), random initial values from `seed`"""
    set_random_seed(seed)
    with quiet():
        config = ConfigLoader(copy.deepcopy(cfg))
        config.get_amplitude()
    return config


def nll_of(config, params=None):
    with quiet():
        return float(config.get_fcn()(params if params is not None else {}))


make_data()
# ---- end of preamble ----

"""
finding 8 (C08): ConfigLoader.fit(..., check_grad=True).  The gradient check that
fit_scipy runs AFTER the minimisation evaluates the FCN at xn[i] +- 1e-5 and only
restores the local list xn, not the model: the last evaluation (last trainable
parameter shifted by -1e-5) stays in the model and is what FitResult.params is
read from.  The returned parameters are therefore not the minimiser's final
point and min_nll is not the NLL at the returned parameters.
"""
cfg = base_config()
cfg["particle"]["R_BC"] = {"J": 1, "Par": 1, "m0": 4.16, "g0": 0.1, "float": "m",
                           "params": {"mass_min": 4.0, "mass_max": 4.2}}
bad = False
for method in ["BFGS", "L-BFGS-B"]:
    out = {}
    for cg in [False, True]:
        c = build(cfg, seed=3)
        with quiet():
            res = c.fit(method=method, maxiter=2, check_grad=cg)
        nll_params = nll_of(c, {k: float(v) for k, v in res.params.items()})
        out[cg] = (res, nll_params, c.vm.trainable_vars[-1])
    last = out[True][2]
    r0, r1 = out[False][0], out[True][0]
    print("method", method, " last trainable parameter:", last)
    print("   check_grad=False: min_nll", r0.min_nll, " NLL(params)", out[False][1], " %s = %.12f" % (last, float(r0.params[last])))
    print("   check_grad=True : min_nll", r1.min_nll, " NLL(params)", out[True][1], " %s = %.12f" % (last, float(r1.params[last])))
    rel = abs(r1.min_nll - out[True][1]) / max(1.0, abs(out[True][1]))
    print("   check_grad=True: |min_nll - NLL(params)| relative =", rel, " parameter shift =", float(r1.params[last]) - float(r0.params[last]), "(expected 0)")
    if rel > 1e-7:
        print("   VIOLATION")
        bad = True
sys.exit(1 if bad else 0)
