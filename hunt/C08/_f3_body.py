
"""
finding 3 (C08): ConfigLoader.fit(..., jac=<anything but True>) (numerical
gradients, e.g. jac="2-point") minimises `lambda x: float(fcn(x))` in fit_scipy:
 (a) the bound transformation is not applied to x although x0 and the final
     set_trans_var(s.x) are in the transformed space -> with any bounded
     parameter the reported minimum is the NLL of an unphysical point, not of
     the returned parameters, and the fit can end above its starting NLL;
 (b) the function is not multiplied by grad_scale but min_nll = s.fun/grad_scale
     -> the reported minimum is NLL/grad_scale.
"""
cfg = base_config()
cfg["constrains"]["fix_var"] = {
    "R_BC->B.C_g_ls_1r": 1.0, "R_BC->B.C_g_ls_1i": 0.3,
    "R_BC->B.C_g_ls_2r": 0.5, "R_BC->B.C_g_ls_2i": -0.4,
    "A->R_BD.C_g_ls_1r": 0.8, "A->R_BD.C_g_ls_1i": 0.2,
    "A->R_BD.C_g_ls_2r": 0.6, "A->R_BD.C_g_ls_2i": -0.1,
    "R_BD->B.D_g_ls_1r": 1.2, "R_BD->B.D_g_ls_1i": 0.3,
}
cfg_b = copy.deepcopy(cfg)
cfg_b["particle"]["R_BC"] = {"J": 1, "Par": 1, "m0": 4.16, "g0": 0.1, "float": "m",
                             "params": {"mass_min": 4.0, "mass_max": 4.2}}
bad = False
for label, cf, kw in [("(a) bounded mass, jac='2-point'", cfg_b, dict(jac="2-point")),
                      ("(b) no bounds, jac='2-point', grad_scale=2", cfg, dict(jac="2-point", grad_scale=2.0)),
                      ("(control) bounded mass, jac=True, grad_scale=2", cfg_b, dict(grad_scale=2.0))]:
    c = build(cf, seed=3)
    start = nll_of(c)
    with quiet():
        res = c.fit(method="BFGS", maxiter=2, **kw)
    nll_params = nll_of(c, {k: float(v) for k, v in res.params.items()})
    print(label)
    print("   start NLL", start)
    print("   FitResult.min_nll (observed):", res.min_nll, "  NLL at FitResult.params (expected):", nll_params)
    if abs(res.min_nll - nll_params) > 1e-7 * max(1.0, abs(nll_params)):
        print("   VIOLATION: min_nll != NLL(params)")
        bad = True
    if nll_params > start + 1e-9:
        print("   VIOLATION: the returned point is above the starting NLL")
        bad = True
sys.exit(1 if bad else 0)
