"""common helpers for the C08 hunt"""
import os, sys, io, copy, json, contextlib
import numpy as np
np.Inf = np.inf
import tensorflow as tf
import yaml

HERE = os.path.dirname(os.path.abspath(__file__))
WORK = os.path.join(HERE, "work")
TESTS = os.path.join(HERE, "tf_pwa", "tests")

from tf_pwa import set_random_seed
from tf_pwa.applications import gen_data, gen_mc
from tf_pwa.config_loader import ConfigLoader


def base_config():
    with open(os.path.join(TESTS, "config_toy.yml")) as f:
        c = yaml.safe_load(f)
    c["data"]["data"] = [os.path.join(WORK, "data.dat")]
    c["data"]["bg"] = [os.path.join(WORK, "bg.dat")]
    c["data"]["phsp"] = [os.path.join(WORK, "PHSP.dat")]
    c.pop("plot", None)
    return c


def make_data(nmc=3000, ndata=400, nbg=300):
    os.makedirs(WORK, exist_ok=True)
    if os.path.exists(os.path.join(WORK, "data.dat")):
        return
    set_random_seed(1)
    phsp = gen_mc(4.6, [2.00698, 2.01028, 0.13957], nmc)
    np.savetxt(os.path.join(WORK, "PHSP.dat"), phsp)
    with open(os.path.join(TESTS, "config_toy.yml")) as f:
        c = yaml.safe_load(f)
    c.pop("plot", None)
    config = ConfigLoader(c)
    config.set_params(os.path.join(TESTS, "gen_params.json"))
    amp = config.get_amplitude()
    gen_data(amp, Ndata=ndata, mcfile=os.path.join(WORK, "PHSP.dat"),
             genfile=os.path.join(WORK, "data.dat"),
             particles=config.get_dat_order())
    bg = gen_mc(4.6, [2.00698, 2.01028, 0.13957], nbg)
    data = np.loadtxt(os.path.join(WORK, "data.dat"))
    np.savetxt(os.path.join(WORK, "data.dat"), np.concatenate([data, bg[:90]]))
    np.savetxt(os.path.join(WORK, "bg.dat"), bg)


@contextlib.contextmanager
def quiet():
    old = sys.stdout
    sys.stdout = io.StringIO()
    try:
        yield
    finally:
        sys.stdout = old


def build(cfg, params=os.path.join(TESTS, "exp_params.json"), seed=7):
    set_random_seed(seed)
    with quiet():
        config = ConfigLoader(cfg)
        config.get_amplitude()
        if params is not None:
            config.set_params(params)
    return config


def nll_at(config, params=None):
    with quiet():
        fcn = config.get_fcn()
        v = float(fcn(params if params is not None else {}))
    return v


def check(config, res, start_nll=None, tol=1e-7, label=""):
    """compare result / state. returns dict of discrepancies"""
    out = {}
    live = config.get_params()
    dmax = 0
    missing = [k for k in live if k not in res.params]
    for k, v in res.params.items():
        dmax = max(dmax, abs(float(v) - float(live[k])))
    out["max|res-live|"] = dmax
    out["missing_in_result"] = missing
    nll_live = nll_at(config)
    out["min_nll"] = res.min_nll
    out["nll_live"] = nll_live
    out["rel"] = abs(nll_live - res.min_nll) / max(1, abs(nll_live))
    if start_nll is not None:
        out["start"] = start_nll
        out["above_start"] = res.min_nll > start_nll + 1e-9
    vm = config.vm
    oob = {}
    for k, (lo, hi) in config.bound_dic.items():
        if k in live:
            v = float(live[k])
            if (lo is not None and v < lo - 1e-12) or (hi is not None and v > hi + 1e-12):
                oob[k] = (v, lo, hi)
    out["out_of_bounds"] = oob
    out["bnd_dic_left"] = dict(vm.bnd_dic)
    return out
