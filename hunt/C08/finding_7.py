# ---- stand-alone preamble (toy data + model builder), identical in all finding_k.py ----
import os, sys, io, json, copy, contextlib, warnings
import numpy as np
np.Inf = np.inf  # NumPy-2 shim needed by tf_pwa/fit_improve.py
warnings.simplefilter("ignore")
os.environ.setdefault("TF_CPP_MIN_LOG_LEVEL", "3")
import tensorflow as tf
import yaml
from tf_pwa import set_random_seed
from tf_pwa.applications import gen_data, gen_mc
from tf_pwa.config_loader import ConfigLoader

HERE = os.path.dirname(os.path.abspath(__file__))
WORK = os.path.join(HERE, "finding_data")
TESTS = os.path.join(HERE, "tf_pwa", "tests")


@contextlib.contextmanager
def quiet():
    old = sys.stdout
    sys.stdout = io.StringIO()
    try:
        yield
    finally:
        sys.stdout = old


def base_config():
    """tf_pwa/tests/config_toy.yml reduced to the two chains A->R_BC D, A->R_BD C"""
    with open(os.path.join(TESTS, "config_toy.yml")) as f:
        c = yaml.safe_load(f)
    c.pop("plot", None)
    c["data"]["data"] = [os.path.join(WORK, "data.dat")]
    c["data"]["bg"] = [os.path.join(WORK, "bg.dat")]
    c["data"]["phsp"] = [os.path.join(WORK, "PHSP.dat")]
    c["decay"]["A"] = [["R_BC", "D"], ["R_BD", "C"]]
    c["decay"].pop("R_CD")
    c["particle"].pop("R_CD")
    c["constrains"] = {"particle": None, "decay": None}
    return c


def make_data():
    if os.path.exists(os.path.join(WORK, "bg.dat")):
        return
    os.makedirs(WORK, exist_ok=True)
    set_random_seed(1)
    with quiet():
        phsp = gen_mc(4.6, [2.00698, 2.01028, 0.13957], 3000)
        np.savetxt(os.path.join(WORK, "PHSP.dat"), phsp)
        with open(os.path.join(TESTS, "config_toy.yml")) as f:
            c = yaml.safe_load(f)
        c.pop("plot", None)
        config = ConfigLoader(c)
        config.set_params(os.path.join(TESTS, "gen_params.json"))
        gen_data(config.get_amplitude(), Ndata=400,
                 mcfile=os.path.join(WORK, "PHSP.dat"),
                 genfile=os.path.join(WORK, "data.dat"),
                 particles=config.get_dat_order())
        bg = gen_mc(4.6, [2.00698, 2.01028, 0.13957], 300)
        data = np.loadtxt(os.path.join(WORK, "data.dat"))
        np.savetxt(os.path.join(WORK, "data.dat"), np.concatenate([data, bg[:90]]))
        np.savetxt(os.path.join(WORK, "bg.dat"), bg)


def build(cfg, seed):
    """a freshly built model (own VarsManager), random initial values from `seed`"""
    set_random_seed(seed)
    with quiet():
        config = ConfigLoader(copy.deepcopy(cfg))
        config.get_amplitude()
    return config


def nll_of(config, params=None):
    with quiet():
        return float(config.get_fcn()(params if params is not None else {}))


make_data()
# ---- end of preamble ----

"""
finding 7 (C08): when a BFGS/CG fit is stopped early by the library's own
LargeNumberError guard ("x too large"), fit_scipy returns except_result()
WITHOUT undoing fcn.vm.set_bound(bounds_dict): the bounds stay in vm.bnd_dic
(on the normal path remove_bound() empties it).  Leaked state of the session:
vm.get(<bounded name>) now returns the *transformed* fit variable instead of the
parameter, so the next fit with method="iminuit" (which reads its start values
with vm.get) starts from a wrong mass and returns another point than the same
fit in a clean session.
"""
cfg = base_config()
cfg["particle"]["R_BC"] = {"J": 1, "Par": 1, "m0": 4.16, "g0": 0.1, "float": "m",
                           "params": {"mass_min": 4.0, "mass_max": 4.2}}
cfg["constrains"]["fix_var"] = {
    "R_BC->B.C_g_ls_1r": 1.0, "R_BC->B.C_g_ls_1i": 0.3,
    "R_BC->B.C_g_ls_2r": 0.5, "R_BC->B.C_g_ls_2i": -0.4,
    "A->R_BD.C_g_ls_1r": 0.8, "A->R_BD.C_g_ls_1i": 0.2,
    "A->R_BD.C_g_ls_2r": 0.6, "A->R_BD.C_g_ls_2i": -0.1,
    "R_BD->B.D_g_ls_1r": 1.2, "R_BD->B.D_g_ls_1i": 0.3,
}
bad = False
c = build(cfg, seed=3)
good = {k: float(v) for k, v in c.get_params().items()}
with quiet():
    c.set_params({"A->R_BC.D_g_ls_1r": 2.0e7})      # a (bad) starting point
    res1 = c.fit(method="BFGS", maxiter=5)           # stopped by LargeNumberError
print("fit 1 (BFGS from a far-away start): success =", res1.success)
print("   vm.bnd_dic after the fit returned: observed", dict(c.vm.bnd_dic), "expected {}")
print("   vm.get('R_BC_mass') observed", float(c.vm.get("R_BC_mass")), "expected", float(c.get_params()["R_BC_mass"]))
if c.vm.bnd_dic:
    bad = True
with quiet():
    c.set_params(good)                                # back to a sane start
    start = nll_of(c)
    res2 = c.fit(method="iminuit")
clean = build(cfg, seed=3)
with quiet():
    res3 = clean.fit(method="iminuit")
print("fit 2 (iminuit from the sane start, same session): start NLL", start)
print("   observed R_BC_mass", float(res2.params["R_BC_mass"]), "min_nll", res2.min_nll)
print("   expected (identical fit in a clean session) R_BC_mass", float(res3.params["R_BC_mass"]), "min_nll", res3.min_nll)
if abs(res2.min_nll - res3.min_nll) > 1e-3 or abs(float(res2.params["R_BC_mass"]) - float(res3.params["R_BC_mass"])) > 1e-4:
    print("   VIOLATION: leaked bounds changed the result of the next fit")
    bad = True
sys.exit(1 if bad else 0)
