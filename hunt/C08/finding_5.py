# ---- stand-alone preamble (toy data + model builder), identical in all finding_k.py ----
import os, sys, io, json, copy, contextlib, warnings
import numpy as np
np.Inf = np.inf  # NumPy-2 shim needed by tf_pwa/fit_improve.py
warnings.simplefilter("ignore")
os.environ.setdefault("TF_CPP_MIN_LOG_LEVEL", "3")
import tensorflow as tf
import yaml
from tf_pwa import set_random_seed
from tf_pwa.applications import gen_data, gen_mc
from tf_pwa.config_loader import ConfigLoader

HERE = os.path.dirname(os.path.abspath(__file__))
WORK = os.path.join(HERE, "finding_data")
TESTS = os.path.join(HERE, "tf_pwa", "tests")


@contextlib.contextmanager
def quiet():
    old = sys.stdout
    sys.stdout = io.StringIO()
    try:
        yield
    finally:
        sys.stdout = old


def base_config():
    """tf_pwa/tests/config_toy.yml reduced to the two chains A->R_BC D, A->R_BD C"""
    with open(os.path.join(TESTS, "config_toy.yml")) as f:
        c = yaml.safe_load(f)
    c.pop("plot", None)
    c["data"]["data"] = [os.path.join(WORK, "data.dat")]
    c["data"]["bg"] = [os.path.join(WORK, "bg.dat")]
    c["data"]["phsp"] = [os.path.join(WORK, "PHSP.dat")]
    c["decay"]["A"] = [["R_BC", "D"], ["R_BD", "C"]]
    c["decay"].pop("R_CD")
    c["particle"].pop("R_CD")
    c["constrains"] = {"particle": None, "decay": None}
    return c


def make_data():
    if os.path.exists(os.path.join(WORK, "bg.dat")):
        return
    os.makedirs(WORK, exist_ok=True)
    set_random_seed(1)
    with quiet():
        phsp = gen_mc(4.6, [2.00698, 2.01028, 0.13957], 3000)
        np.savetxt(os.path.join(WORK, "PHSP.dat"), phsp)
        with open(os.path.join(TESTS, "config_toy.yml")) as f:
            c = yaml.safe_load(f)
        c.pop("plot", None)
        config = ConfigLoader(c)
        config.set_params(os.path.join(TESTS, "gen_params.json"))
        gen_data(config.get_amplitude(), Ndata=400,
                 mcfile=os.path.join(WORK, "PHSP.dat"),
                 genfile=os.path.join(WORK, "data.dat"),
                 particles=config.get_dat_order())
        bg = gen_mc(4.6, [2.00698, 2.01028, 0.13957], 300)
        data = np.loadtxt(os.path.join(WORK, "data.dat"))
        np.savetxt(os.path.join(WORK, "data.dat"), np.concatenate([data, bg[:90]]))
        np.savetxt(os.path.join(WORK, "bg.dat"), bg)


def build(cfg, seed):
    """a freshly built model (own VarsManager), random initial values from `seed`"""
    set_random_seed(seed)
    with quiet():
        config = ConfigLoader(copy.deepcopy(cfg))
        config.get_amplitude()
    return config


def nll_of(config, params=None):
    with quiet():
        return float(config.get_fcn()(params if params is not None else {}))


make_data()
# ---- end of preamble ----

"""
finding 5 (C08): a resonance mass/width that is floated by any route other than
the `float:` key (`params: {mass_free: True}`, or `constrains: {free_var: [...]}`)
is fitted, written to the result/parameter file, but silently *ignored* when the
file is loaded: add_particle_constraints() puts <res>_mass/<res>_width into
ConfigLoader._neglect_when_set_params whenever `float` is absent, and
set_params(<file name>) drops those entries.  A freshly built model therefore
keeps the config mass and does not reproduce the fitted point.
"""
bad = False
for label, mod in [("params: {mass_free: True}", "free"), ("constrains: {free_var: [R_BC_mass]}", "free_var")]:
    cfg = base_config()
    cfg["particle"]["R_BC"] = {"J": 1, "Par": 1, "m0": 4.1, "g0": 0.1}
    if mod == "free":
        cfg["particle"]["R_BC"]["params"] = {"mass_free": True}
    else:
        cfg["constrains"]["free_var"] = ["R_BC_mass"]
    c = build(cfg, seed=3)
    assert "R_BC_mass" in c.vm.trainable_vars
    with quiet():
        res = c.fit(method="BFGS", maxiter=8)
    nll_live = nll_of(c)
    f_res = os.path.join(WORK, "f5_result.json"); f_par = os.path.join(WORK, "f5_params.json")
    res.save_as(f_res); c.save_params(f_par)
    print(label, ": fitted R_BC_mass =", float(res.params["R_BC_mass"]), " min_nll =", res.min_nll)
    for f in [f_res, f_par]:
        fresh = build(cfg, seed=3)
        with quiet():
            fresh.set_params(f)
        m2 = float(fresh.get_params()["R_BC_mass"]); n2 = nll_of(fresh)
        print("   load", os.path.basename(f), "into a fresh model: R_BC_mass observed", m2, "expected", float(res.params["R_BC_mass"]),
              "| NLL observed", n2, "expected", nll_live)
        if abs(m2 - float(res.params["R_BC_mass"])) > 1e-12 or abs(n2 - nll_live) > 1e-7 * abs(nll_live):
            print("   VIOLATION")
            bad = True
sys.exit(1 if bad else 0)
