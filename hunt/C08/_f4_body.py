
"""
finding 4 (C08): a mass (or width) range given as `params: {mass_range: [lo, hi]}`
(the form used by tf_pwa/tests/config_toy.yml) is silently discarded as soon as
the mass is floated with `float: m`: add_particle_constraints() overwrites
bound_dic[<mass>] with (mass_min, mass_max) = (None, None) after
set_prefix_constrains() stored the range.  The fit then leaves the range for
every minimiser.
"""
cfg = base_config()
cfg["particle"]["R_BC"] = {"J": 1, "Par": 1, "m0": 4.05, "g0": 0.1, "float": "m",
                           "params": {"mass_range": [4.0, 4.1]}}
lo, hi = 4.0, 4.1
bad = False
for method in ["BFGS", "L-BFGS-B"]:
    c = build(cfg, seed=3)
    with quiet():
        res = c.fit(method=method, maxiter=15)
    m = float(res.params["R_BC_mass"])
    print("method", method, " config.bound_dic =", c.bound_dic)
    print("   R_BC_mass after fit: observed", m, " expected inside [%g, %g]" % (lo, hi))
    if not (lo <= m <= hi):
        print("   VIOLATION: bounded parameter outside its bounds")
        bad = True
# control: the same range written as mass_min / mass_max is honoured
cfg2 = copy.deepcopy(cfg)
cfg2["particle"]["R_BC"]["params"] = {"mass_min": lo, "mass_max": hi}
c = build(cfg2, seed=3)
with quiet():
    res = c.fit(method="BFGS", maxiter=15)
print("control (mass_min/mass_max): bound_dic =", c.bound_dic, " R_BC_mass =", float(res.params["R_BC_mass"]))
sys.exit(1 if bad else 0)
