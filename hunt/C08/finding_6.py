# ---- stand-alone preamble (toy data + model builder), identical in all finding_k.py ----
import os, sys, io, json, copy, contextlib, warnings
import numpy as np
np.Inf = np.inf  # NumPy-2 shim needed by tf_pwa/fit_improve.py
warnings.simplefilter("ignore")
os.environ.setdefault("TF_CPP_MIN_LOG_LEVEL", "3")
import tensorflow as tf
import yaml
from tf_pwa import set_random_seed
from tf_pwa.applications import gen_data, gen_mc
from tf_pwa.config_loader import ConfigLoader

HERE = os.path.dirname(os.path.abspath(__file__))
WORK = os.path.join(HERE, "finding_data")
TESTS = os.path.join(HERE, "tf_pwa", "tests")


@contextlib.contextmanager
def quiet():
    old = sys.stdout
    sys.stdout = io.StringIO()
    try:
        yield
    finally:
        sys.stdout = old


def base_config():
    """tf_pwa/tests/config_toy.yml reduced to the two chains A->R_BC D, A->R_BD C"""
    with open(os.path.join(TESTS, "config_toy.yml")) as f:
        c = yaml.safe_load(f)
    c.pop("plot", None)
    c["data"]["data"] = [os.path.join(WORK, "data.dat")]
    c["data"]["bg"] = [os.path.join(WORK, "bg.dat")]
    c["data"]["phsp"] = [os.path.join(WORK, "PHSP.dat")]
    c["decay"]["A"] = [["R_BC", "D"], ["R_BD", "C"]]
    c["decay"].pop("R_CD")
    c["particle"].pop("R_CD")
    c["constrains"] = {"particle": None, "decay": None}
    return c


def make_data():
    if os.path.exists(os.path.join(WORK, "bg.dat")):
        return
    os.makedirs(WORK, exist_ok=True)
    set_random_seed(1)
    with quiet():
        phsp = gen_mc(4.6, [2.00698, 2.01028, 0.13957], 3000)
        np.savetxt(os.path.join(WORK, "PHSP.dat"), phsp)
        with open(os.path.join(TESTS, "config_toy.yml")) as f:
            c = yaml.safe_load(f)
        c.pop("plot", None)
        config = ConfigLoader(c)
        config.set_params(os.path.join(TESTS, "gen_params.json"))
        gen_data(config.get_amplitude(), Ndata=400,
                 mcfile=os.path.join(WORK, "PHSP.dat"),
                 genfile=os.path.join(WORK, "data.dat"),
                 particles=config.get_dat_order())
        bg = gen_mc(4.6, [2.00698, 2.01028, 0.13957], 300)
        data = np.loadtxt(os.path.join(WORK, "data.dat"))
        np.savetxt(os.path.join(WORK, "data.dat"), np.concatenate([data, bg[:90]]))
        np.savetxt(os.path.join(WORK, "bg.dat"), bg)


def build(cfg, seed):
    """a freshly built model (own VarsManager), random initial values from `seed`"""
    set_random_seed(seed)
    with quiet():
        config = ConfigLoader(copy.deepcopy(cfg))
        config.get_amplitude()
    return config


def nll_of(config, params=None):
    with quiet():
        return float(config.get_fcn()(params if params is not None else {}))


make_data()
# ---- end of preamble ----

"""
finding 6 (C08): bounds of a tied parameter are ignored unless they are declared
on the one name that happens to be the head of the tie.  fit_scipy/fit_minuit
look bounds up by the names in vm.trainable_vars only (the head); a bound
declared on any other member of the tie is dropped, so the (shared) value leaves
the declared range for every minimiser.
  case A: constrains.var_equal: [[R_BC_mass, R_BD_mass]], bounds on R_BD_mass
  case B: constrains.particle.equal.mass: [[R_BC, R_BD]] (documented form; here
          the head becomes the LAST listed particle), bounds on R_BC
"""
lo, hi = 4.0, 4.1
bad = False
for case in ["A", "B"]:
    cfg = base_config()
    free = {"J": 1, "Par": 1, "m0": 4.05, "g0": 0.1, "float": "m"}
    bounded = dict(free, params={"mass_min": lo, "mass_max": hi})
    if case == "A":
        cfg["particle"]["R_BC"] = dict(free); cfg["particle"]["R_BD"] = dict(bounded, g0=0.3)
        cfg["constrains"]["var_equal"] = [["R_BC_mass", "R_BD_mass"]]
        bname = "R_BD_mass"
    else:
        cfg["particle"]["R_BC"] = dict(bounded); cfg["particle"]["R_BD"] = dict(free, g0=0.3)
        cfg["constrains"]["particle"] = {"equal": {"mass": [["R_BC", "R_BD"]]}}
        bname = "R_BC_mass"
    for method in ["BFGS", "L-BFGS-B"]:
        c = build(cfg, seed=3)
        with quiet():
            res = c.fit(method=method, maxiter=15)
        p = res.params
        print("case", case, method, "bound_dic", c.bound_dic, "trainable masses", [k for k in c.vm.trainable_vars if k.endswith("_mass")])
        print("   R_BC_mass", float(p["R_BC_mass"]), "R_BD_mass", float(p["R_BD_mass"]),
              "| expected", bname, "inside [%g, %g]" % (lo, hi))
        if float(p["R_BC_mass"]) != float(p["R_BD_mass"]):
            print("   VIOLATION: tie broken"); bad = True
        if not (lo <= float(p[bname]) <= hi):
            print("   VIOLATION: bounded (tied) parameter outside its bounds"); bad = True
sys.exit(1 if bad else 0)
