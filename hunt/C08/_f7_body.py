
"""
finding 7 (C08): when a BFGS/CG fit is stopped early by the library's own
LargeNumberError guard ("x too large"), fit_scipy returns except_result()
WITHOUT undoing fcn.vm.set_bound(bounds_dict): the bounds stay in vm.bnd_dic
(on the normal path remove_bound() empties it).  Leaked state of the session:
vm.get(<bounded name>) now returns the *transformed* fit variable instead of the
parameter, so the next fit with method="iminuit" (which reads its start values
with vm.get) starts from a wrong mass and returns another point than the same
fit in a clean session.
"""
cfg = base_config()
cfg["particle"]["R_BC"] = {"J": 1, "Par": 1, "m0": 4.16, "g0": 0.1, "float": "m",
                           "params": {"mass_min": 4.0, "mass_max": 4.2}}
cfg["constrains"]["fix_var"] = {
    "R_BC->B.C_g_ls_1r": 1.0, "R_BC->B.C_g_ls_1i": 0.3,
    "R_BC->B.C_g_ls_2r": 0.5, "R_BC->B.C_g_ls_2i": -0.4,
    "A->R_BD.C_g_ls_1r": 0.8, "A->R_BD.C_g_ls_1i": 0.2,
    "A->R_BD.C_g_ls_2r": 0.6, "A->R_BD.C_g_ls_2i": -0.1,
    "R_BD->B.D_g_ls_1r": 1.2, "R_BD->B.D_g_ls_1i": 0.3,
}
bad = False
c = build(cfg, seed=3)
good = {k: float(v) for k, v in c.get_params().items()}
with quiet():
    c.set_params({"A->R_BC.D_g_ls_1r": 2.0e7})      # a (bad) starting point
    res1 = c.fit(method="BFGS", maxiter=5)           # stopped by LargeNumberError
print("fit 1 (BFGS from a far-away start): success =", res1.success)
print("   vm.bnd_dic after the fit returned: observed", dict(c.vm.bnd_dic), "expected {}")
print("   vm.get('R_BC_mass') observed", float(c.vm.get("R_BC_mass")), "expected", float(c.get_params()["R_BC_mass"]))
if c.vm.bnd_dic:
    bad = True
with quiet():
    c.set_params(good)                                # back to a sane start
    start = nll_of(c)
    res2 = c.fit(method="iminuit")
clean = build(cfg, seed=3)
with quiet():
    res3 = clean.fit(method="iminuit")
print("fit 2 (iminuit from the sane start, same session): start NLL", start)
print("   observed R_BC_mass", float(res2.params["R_BC_mass"]), "min_nll", res2.min_nll)
print("   expected (identical fit in a clean session) R_BC_mass", float(res3.params["R_BC_mass"]), "min_nll", res3.min_nll)
if abs(res2.min_nll - res3.min_nll) > 1e-3 or abs(float(res2.params["R_BC_mass"]) - float(res3.params["R_BC_mass"])) > 1e-4:
    print("   VIOLATION: leaked bounds changed the result of the next fit")
    bad = True
sys.exit(1 if bad else 0)
