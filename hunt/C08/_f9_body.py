
"""
finding 9 (C08, simultaneous-fit front end): MultiConfig.fit() takes its bounds
and Gaussian constraints from MultiConfig.bound_dic / gauss_constr_dic, which are
only filled as a side effect of MultiConfig.get_amplitudes() (called by
set_params()).  MultiConfig.get_fcn()/fit() do not call it, so a MultiConfig that
is fitted without a previous set_params() silently fits WITHOUT the bounds and
WITHOUT the Gaussian constraint declared in its configs.
"""
from tf_pwa.config_loader import MultiConfig
lo, hi = 4.0, 4.1
cfg = base_config()
cfg["particle"]["R_BC"] = {"J": 1, "Par": 1, "m0": 4.05, "g0": 0.1, "float": "m",
                           "params": {"mass_min": lo, "mass_max": hi}}
cfg["constrains"]["gauss_constr"] = {"R_BC_mass": [4.08, 0.01]}
bad = False
for call_set_params in [False, True]:
    set_random_seed(5)
    with quiet():
        mc = MultiConfig([copy.deepcopy(cfg), copy.deepcopy(cfg)], total_same=True)
        if call_set_params:
            mc.set_params("")          # no file: only triggers get_amplitudes()
        res = mc.fit(method="BFGS", maxiter=15)
    m = float(res.params["R_BC_mass"])
    constr_used = dict(mc.get_fcn().gauss_constr.constraint)
    print("set_params('') before fit:", call_set_params)
    print("   bounds used by fit:", mc.bound_dic, " Gaussian constraints in the FCN:", constr_used)
    print("   R_BC_mass observed", m, " expected inside [%g, %g]" % (lo, hi))
    if not (lo <= m <= hi) or not constr_used:
        print("   VIOLATION: declared bounds / Gaussian constraint not applied")
        bad = True
sys.exit(1 if bad else 0)
