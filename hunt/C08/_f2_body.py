
"""
finding 2 (C08): with CP-violating chain factors (decay_chain: {$all: {is_cp: True}},
documented in config.sample.yml) the complex factor is
(r + c*deltar) * exp(i*(phi + c*deltai)).  After the minimiser returns,
fit_scipy calls VarsManager.standard_complex(), which maps r<0 to (|r|, phi+pi)
but leaves deltar untouched - a different amplitude.  The returned parameters
(and the model) are therefore NOT the point whose NLL is reported.
"""
cfg = base_config()
cfg["decay_chain"] = {"$all": {"is_cp": True}}
bad = False
for method in ["BFGS", "L-BFGS-B"]:
    c = build(cfg, seed=1)
    start = nll_of(c)
    with quiet():
        res = c.fit(method=method, maxiter=3)
    nll_live = nll_of(c)
    nll_params = nll_of(c, {k: float(v) for k, v in res.params.items()})
    print("method", method, " start NLL", start)
    print("   FitResult.min_nll             (observed):", res.min_nll)
    print("   NLL at FitResult.params       (expected to be equal):", nll_params)
    print("   NLL of the live model         :", nll_live)
    r = float(res.params["A->R_BD.CR_BD->B.D_total_0r"]); dr = float(res.params["A->R_BD.CR_BD->B.D_total_0deltar"])
    print("   A->R_BD... total_0r, total_0deltar after fit:", r, dr)
    if abs(res.min_nll - nll_params) > 1e-7 * max(1.0, abs(nll_params)):
        print("   VIOLATION: reported minimum differs from NLL at returned parameters by", res.min_nll - nll_params)
        bad = True
sys.exit(1 if bad else 0)
