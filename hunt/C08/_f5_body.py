
"""
finding 5 (C08): a resonance mass/width that is floated by any route other than
the `float:` key (`params: {mass_free: True}`, or `constrains: {free_var: [...]}`)
is fitted, written to the result/parameter file, but silently *ignored* when the
file is loaded: add_particle_constraints() puts <res>_mass/<res>_width into
ConfigLoader._neglect_when_set_params whenever `float` is absent, and
set_params(<file name>) drops those entries.  A freshly built model therefore
keeps the config mass and does not reproduce the fitted point.
"""
bad = False
for label, mod in [("params: {mass_free: True}", "free"), ("constrains: {free_var: [R_BC_mass]}", "free_var")]:
    cfg = base_config()
    cfg["particle"]["R_BC"] = {"J": 1, "Par": 1, "m0": 4.1, "g0": 0.1}
    if mod == "free":
        cfg["particle"]["R_BC"]["params"] = {"mass_free": True}
    else:
        cfg["constrains"]["free_var"] = ["R_BC_mass"]
    c = build(cfg, seed=3)
    assert "R_BC_mass" in c.vm.trainable_vars
    with quiet():
        res = c.fit(method="BFGS", maxiter=8)
    nll_live = nll_of(c)
    f_res = os.path.join(WORK, "f5_result.json"); f_par = os.path.join(WORK, "f5_params.json")
    res.save_as(f_res); c.save_params(f_par)
    print(label, ": fitted R_BC_mass =", float(res.params["R_BC_mass"]), " min_nll =", res.min_nll)
    for f in [f_res, f_par]:
        fresh = build(cfg, seed=3)
        with quiet():
            fresh.set_params(f)
        m2 = float(fresh.get_params()["R_BC_mass"]); n2 = nll_of(fresh)
        print("   load", os.path.basename(f), "into a fresh model: R_BC_mass observed", m2, "expected", float(res.params["R_BC_mass"]),
              "| NLL observed", n2, "expected", nll_live)
        if abs(m2 - float(res.params["R_BC_mass"])) > 1e-12 or abs(n2 - nll_live) > 1e-7 * abs(nll_live):
            print("   VIOLATION")
            bad = True
sys.exit(1 if bad else 0)
