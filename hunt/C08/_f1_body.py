
"""
finding 1 (C08): method="iminuit" returns a FitResult that lists only the
trainable parameters.  FitResult.save_as() therefore writes a file without the
fixed parameters, and loading it into a freshly built model does not reproduce
the fitted point (the default fixed chain total `fix_chain_val` is random per
model build), while the same steps with BFGS do.
"""
cfg = base_config()
# keep Migrad fast: only four free parameters
cfg["constrains"]["fix_var"] = {
    "R_BC->B.C_g_ls_1r": 1.0, "R_BC->B.C_g_ls_1i": 0.3,
    "R_BC->B.C_g_ls_2r": 0.5, "R_BC->B.C_g_ls_2i": -0.4,
    "A->R_BD.C_g_ls_1r": 0.8, "A->R_BD.C_g_ls_1i": 0.2,
    "A->R_BD.C_g_ls_2r": 0.6, "A->R_BD.C_g_ls_2i": -0.1,
    "R_BD->B.D_g_ls_1r": 1.2, "R_BD->B.D_g_ls_1i": 0.3,
}
bad = False
for method in ["BFGS", "iminuit"]:
    c = build(cfg, seed=3)
    with quiet():
        res = c.fit(method=method, maxiter=5)
    live = {k: float(v) for k, v in c.get_params().items()}
    nll_live = nll_of(c)
    missing = sorted(set(live) - set(res.params))
    fname = os.path.join(WORK, "f1_%s.json" % method)
    res.save_as(fname)
    fresh = build(cfg, seed=11)  # a new session: other random numbers
    with quiet():
        fresh.set_params(fname)
    p2 = {k: float(v) for k, v in fresh.get_params().items()}
    worst = max(live, key=lambda k: abs(live[k] - p2[k]))
    nll_fresh = nll_of(fresh)
    print("method", method)
    print("   parameters of the model absent from FitResult.params:", len(missing), missing[:3], "...")
    print("   largest parameter difference after save_as -> set_params into a fresh model:",
          worst, "observed", p2[worst], "expected", live[worst])
    print("   NLL of the fresh model: observed", nll_fresh, "expected", nll_live, "(FitResult.min_nll", res.min_nll, ")")
    if missing or abs(live[worst] - p2[worst]) > 1e-9 or abs(nll_fresh - nll_live) > 1e-7 * abs(nll_live):
        print("   VIOLATION for", method)
        bad = True
sys.exit(1 if bad else 0)
