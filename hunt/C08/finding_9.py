# ---- stand-alone preamble (toy data + model builder), identical in all finding_k.py ----
import os, sys, io, json, copy, contextlib, warnings
import numpy as np
np.Inf = np.inf  # NumPy-2 shim needed by tf_pwa/fit_improve.py
warnings.simplefilter("ignore")
os.environ.setdefault("TF_CPP_MIN_LOG_LEVEL", "3")
import tensorflow as tf
import yaml
from tf_pwa import set_random_seed
from tf_pwa.applications import gen_data, gen_mc
from tf_pwa.config_loader import ConfigLoader

HERE = os.path.dirname(os.path.abspath(__file__))
WORK = os.path.join(HERE, "finding_data")
TESTS = os.path.join(HERE, "tf_pwa", "tests")


@contextlib.contextmanager
def quiet():
    old = sys.stdout
    sys.stdout = io.StringIO()
    try:
        yield
    finally:
        sys.stdout = old


def base_config():
    """tf_pwa/tests/config_toy.yml reduced to the two chains A->R_BC D, A->R_BD C"""
    with open(os.path.join(TESTS, "config_toy.yml")) as f:
        c = yaml.safe_load(f)
    c.pop("plot", None)
    c["data"]["data"] = [os.path.join(WORK, "data.dat")]
    c["data"]["bg"] = [os.path.join(WORK, "bg.dat")]
    c["data"]["phsp"] = [os.path.join(WORK, "PHSP.dat")]
    c["decay"]["A"] = [["R_BC", "D"], ["R_BD", "C"]]
    c["decay"].pop("R_CD")
    c["particle"].pop("R_CD")
    c["constrains"] = {"particle": None, "decay": None}
    return c


def make_data():
    if os.path.exists(os.path.join(WORK, "bg.dat")):
        return
    os.makedirs(WORK, exist_ok=True)
    set_random_seed(1)
    with quiet():
        phsp = gen_mc(4.6, [2.00698, 2.01028, 0.13957], 3000)
        np.savetxt(os.path.join(WORK, "PHSP.dat"), phsp)
        with open(os.path.join(TESTS, "config_toy.yml")) as f:
            c = yaml.safe_load(f)
        c.pop("plot", None)
        config = ConfigLoader(c)
        config.set_params(os.path.join(TESTS, "gen_params.json"))
        gen_data(config.get_amplitude(), Ndata=400,
                 mcfile=os.path.join(WORK, "PHSP.dat"),
                 genfile=os.path.join(WORK, "data.dat"),
                 particles=config.get_dat_order())
        bg = gen_mc(4.6, [2.00698, 2.01028, 0.13957], 300)
        data = np.loadtxt(os.path.join(WORK, "data.dat"))
        np.savetxt(os.path.join(WORK, "data.dat"), np.concatenate([data, bg[:90]]))
        np.savetxt(os.path.join(WORK, "bg.dat"), bg)


def build(cfg, seed):
    """a freshly built model (own VarsManager), random initial values from `seed`"""
    set_random_seed(seed)
    with quiet():
        config = ConfigLoader(copy.deepcopy(cfg))
        config.get_amplitude()
    return config


def nll_of(config, params=None):
    with quiet():
        return float(config.get_fcn()(params if params is not None else {}))


make_data()
# ---- end of preamble ----

"""
finding 9 (C08, simultaneous-fit front end): MultiConfig.fit() takes its bounds
and Gaussian constraints from MultiConfig.bound_dic / gauss_constr_dic, which are
only filled as a side effect of MultiConfig.get_amplitudes() (called by
set_params()).  MultiConfig.get_fcn()/fit() do not call it, so a MultiConfig that
is fitted without a previous set_params() silently fits WITHOUT the bounds and
WITHOUT the Gaussian constraint declared in its configs.
"""
from tf_pwa.config_loader import MultiConfig
lo, hi = 4.0, 4.1
cfg = base_config()
cfg["particle"]["R_BC"] = {"J": 1, "Par": 1, "m0": 4.05, "g0": 0.1, "float": "m",
                           "params": {"mass_min": lo, "mass_max": hi}}
cfg["constrains"]["gauss_constr"] = {"R_BC_mass": [4.08, 0.01]}
bad = False
for call_set_params in [False, True]:
    set_random_seed(5)
    with quiet():
        mc = MultiConfig([copy.deepcopy(cfg), copy.deepcopy(cfg)], total_same=True)
        if call_set_params:
            mc.set_params("")          # no file: only triggers get_amplitudes()
        res = mc.fit(method="BFGS", maxiter=15)
    m = float(res.params["R_BC_mass"])
    constr_used = dict(mc.get_fcn().gauss_constr.constraint)
    print("set_params('') before fit:", call_set_params)
    print("   bounds used by fit:", mc.bound_dic, " Gaussian constraints in the FCN:", constr_used)
    print("   R_BC_mass observed", m, " expected inside [%g, %g]" % (lo, hi))
    if not (lo <= m <= hi) or not constr_used:
        print("   VIOLATION: declared bounds / Gaussian constraint not applied")
        bad = True
sys.exit(1 if bad else 0)
