# ---- stand-alone preamble (toy data + model builder), identical in all finding_k.py ----
import os, sys, io, json, copy, contextlib, warnings
import numpy as np
np.Inf = np.inf  # NumPy-2 shim needed by tf_pwa/fit_improve.py
warnings.simplefilter("ignore")
os.environ.setdefault("TF_CPP_MIN_LOG_LEVEL", "3")
import tensorflow as tf
import yaml
from tf_pwa import set_random_seed
from tf_pwa.applications import gen_data, gen_mc
from tf_pwa.config_loader import ConfigLoader

HERE = os.path.dirname(os.path.abspath(__file__))
WORK = os.path.join(HERE, "finding_data")
TESTS = os.path.join(HERE, "tf_pwa", "tests")


@contextlib.contextmanager
def quiet():
    old = sys.stdout
    sys.stdout = io.StringIO()
    try:
        yield
    finally:
        sys.stdout = old


def base_config():
    """tf_pwa/tests/config_toy.yml reduced to the two chains A->R_BC D, A->R_BD C"""
    with open(os.path.join(TESTS, "config_toy.yml")) as f:
        c = yaml.safe_load(f)
    c.pop("plot", None)
    c["data"]["data"] = [os.path.join(WORK, "data.dat")]
    c["data"]["bg"] = [os.path.join(WORK, "bg.dat")]
    c["data"]["phsp"] = [os.path.join(WORK, "PHSP.dat")]
    c["decay"]["A"] = [["R_BC", "D"], ["R_BD", "C"]]
    c["decay"].pop("R_CD")
    c["particle"].pop("R_CD")
    c["constrains"] = {"particle": None, "decay": None}
    return c


def make_data():
    if os.path.exists(os.path.join(WORK, "bg.dat")):
        return
    os.makedirs(WORK, exist_ok=True)
    set_random_seed(1)
    with quiet():
        phsp = gen_mc(4.6, [2.00698, 2.01028, 0.13957], 3000)
        np.savetxt(os.path.join(WORK, "PHSP.dat"), phsp)
        with open(os.path.join(TESTS, "config_toy.yml")) as f:
            c = yaml.safe_load(f)
        c.pop("plot", None)
        config = ConfigLoader(c)
        config.set_params(os.path.join(TESTS, "gen_params.json"))
        gen_data(config.get_amplitude(), Ndata=400,
                 mcfile=os.path.join(WORK, "PHSP.dat"),
                 genfile=os.path.join(WORK, "data.dat"),
                 particles=config.get_dat_order())
        bg = gen_mc(4.6, [2.00698, 2.01028, 0.13957], 300)
        data = np.loadtxt(os.path.join(WORK, "data.dat"))
        np.savetxt(os.path.join(WORK, "data.dat"), np.concatenate([data, bg[:90]]))
        np.savetxt(os.path.join(WORK, "bg.dat"), bg)


def build(cfg, seed):
    """a freshly built model (own VarsManager), random initial values from `seed`"""
    set_random_seed(seed)
    with quiet():
        config = ConfigLoader(copy.deepcopy(cfg))
        config.get_amplitude()
    return config


def nll_of(config, params=None):
    with quiet():
        return float(config.get_fcn()(params if params is not None else {}))


make_data()
# ---- end of preamble ----

"""
finding 1 (C08): method="iminuit" returns a FitResult that lists only the
trainable parameters.  FitResult.save_as() therefore writes a file without the
fixed parameters, and loading it into a freshly built model does not reproduce
the fitted point (the default fixed chain total `fix_chain_val` is random per
model build), while the same steps with BFGS do.
"""
cfg = base_config()
# keep Migrad fast: only four free parameters
cfg["constrains"]["fix_var"] = {
    "R_BC->B.C_g_ls_1r": 1.0, "R_BC->B.C_g_ls_1i": 0.3,
    "R_BC->B.C_g_ls_2r": 0.5, "R_BC->B.C_g_ls_2i": -0.4,
    "A->R_BD.C_g_ls_1r": 0.8, "A->R_BD.C_g_ls_1i": 0.2,
    "A->R_BD.C_g_ls_2r": 0.6, "A->R_BD.C_g_ls_2i": -0.1,
    "R_BD->B.D_g_ls_1r": 1.2, "R_BD->B.D_g_ls_1i": 0.3,
}
bad = False
for method in ["BFGS", "iminuit"]:
    c = build(cfg, seed=3)
    with quiet():
        res = c.fit(method=method, maxiter=5)
    live = {k: float(v) for k, v in c.get_params().items()}
    nll_live = nll_of(c)
    missing = sorted(set(live) - set(res.params))
    fname = os.path.join(WORK, "f1_%s.json" % method)
    res.save_as(fname)
    fresh = build(cfg, seed=11)  # a new session: other random numbers
    with quiet():
        fresh.set_params(fname)
    p2 = {k: float(v) for k, v in fresh.get_params().items()}
    worst = max(live, key=lambda k: abs(live[k] - p2[k]))
    nll_fresh = nll_of(fresh)
    print("method", method)
    print("   parameters of the model absent from FitResult.params:", len(missing), missing[:3], "...")
    print("   largest parameter difference after save_as -> set_params into a fresh model:",
          worst, "observed", p2[worst], "expected", live[worst])
    print("   NLL of the fresh model: observed", nll_fresh, "expected", nll_live, "(FitResult.min_nll", res.min_nll, ")")
    if missing or abs(live[worst] - p2[worst]) > 1e-9 or abs(nll_fresh - nll_live) > 1e-7 * abs(nll_live):
        print("   VIOLATION for", method)
        bad = True
sys.exit(1 if bad else 0)
