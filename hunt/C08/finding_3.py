# ---- stand-alone preamble (toy data + model builder), identical in all finding_k.py ----
import os, sys, io, json, copy, contextlib, warnings
import numpy as np
np.Inf = np.inf  # NumPy-2 shim needed by tf_pwa/fit_improve.py
warnings.simplefilter("ignore")
os.environ.setdefault("TF_CPP_MIN_LOG_LEVEL", "3")
import tensorflow as tf
import yaml
from tf_pwa import set_random_seed
from tf_pwa.applications import gen_data, gen_mc
from tf_pwa.config_loader import ConfigLoader

HERE = os.path.dirname(os.path.abspath(__file__))
WORK = os.path.join(HERE, "finding_data")
TESTS = os.path.join(HERE, "tf_pwa", "tests")


@contextlib.contextmanager
def quiet():
    old = sys.stdout
    sys.stdout = io.StringIO()
    try:
        yield
    finally:
        sys.stdout = old


def base_config():
    """tf_pwa/tests/config_toy.yml reduced to the two chains A->R_BC D, A->R_BD C"""
    with open(os.path.join(TESTS, "config_toy.yml")) as f:
        c = yaml.safe_load(f)
    c.pop("plot", None)
    c["data"]["data"] = [os.path.join(WORK, "data.dat")]
    c["data"]["bg"] = [os.path.join(WORK, "bg.dat")]
    c["data"]["phsp"] = [os.path.join(WORK, "PHSP.dat")]
    c["decay"]["A"] = [["R_BC", "D"], ["R_BD", "C"]]
    c["decay"].pop("R_CD")
    c["particle"].pop("R_CD")
    c["constrains"] = {"particle": None, "decay": None}
    return c


def make_data():
    if os.path.exists(os.path.join(WORK, "bg.dat")):
        return
    os.makedirs(WORK, exist_ok=True)
    set_random_seed(1)
    with quiet():
        phsp = gen_mc(4.6, [2.00698, 2.01028, 0.13957], 3000)
        np.savetxt(os.path.join(WORK, "PHSP.dat"), phsp)
        with open(os.path.join(TESTS, "config_toy.yml")) as f:
            c = yaml.safe_load(f)
        c.pop("plot", None)
        config = ConfigLoader(c)
        config.set_params(os.path.join(TESTS, "gen_params.json"))
        gen_data(config.get_amplitude(), Ndata=400,
                 mcfile=os.path.join(WORK, "PHSP.dat"),
                 genfile=os.path.join(WORK, "data.dat"),
                 particles=config.get_dat_order())
        bg = gen_mc(4.6, [2.00698, 2.01028, 0.13957], 300)
        data = np.loadtxt(os.path.join(WORK, "data.dat"))
        np.savetxt(os.path.join(WORK, "data.dat"), np.concatenate([data, bg[:90]]))
        np.savetxt(os.path.join(WORK, "bg.dat"), bg)


def build(cfg, seed):
    """a freshly built model (own VarsManager), random initial values from `seed`"""
    set_random_seed(seed)
    with quiet():
        config = ConfigLoader(copy.deepcopy(cfg))
        config.get_amplitude()
    return config


def nll_of(config, params=None):
    with quiet():
        return float(config.get_fcn()(params if params is not None else {}))


make_data()
# ---- end of preamble ----

"""
finding 3 (C08): ConfigLoader.fit(..., jac=<anything but True>) (numerical
gradients, e.g. jac="2-point") minimises `lambda x: float(fcn(x))` in fit_scipy:
 (a) the bound transformation is not applied to x although x0 and the final
     set_trans_var(s.x) are in the transformed space -> with any bounded
     parameter the reported minimum is the NLL of an unphysical point, not of
     the returned parameters, and the fit can end above its starting NLL;
 (b) the function is not multiplied by grad_scale but min_nll = s.fun/grad_scale
     -> the reported minimum is NLL/grad_scale.
"""
cfg = base_config()
cfg["constrains"]["fix_var"] = {
    "R_BC->B.C_g_ls_1r": 1.0, "R_BC->B.C_g_ls_1i": 0.3,
    "R_BC->B.C_g_ls_2r": 0.5, "R_BC->B.C_g_ls_2i": -0.4,
    "A->R_BD.C_g_ls_1r": 0.8, "A->R_BD.C_g_ls_1i": 0.2,
    "A->R_BD.C_g_ls_2r": 0.6, "A->R_BD.C_g_ls_2i": -0.1,
    "R_BD->B.D_g_ls_1r": 1.2, "R_BD->B.D_g_ls_1i": 0.3,
}
cfg_b = copy.deepcopy(cfg)
cfg_b["particle"]["R_BC"] = {"J": 1, "Par": 1, "m0": 4.16, "g0": 0.1, "float": "m",
                             "params": {"mass_min": 4.0, "mass_max": 4.2}}
bad = False
for label, cf, kw in [("(a) bounded mass, jac='2-point'", cfg_b, dict(jac="2-point")),
                      ("(b) no bounds, jac='2-point', grad_scale=2", cfg, dict(jac="2-point", grad_scale=2.0)),
                      ("(control) bounded mass, jac=True, grad_scale=2", cfg_b, dict(grad_scale=2.0))]:
    c = build(cf, seed=3)
    start = nll_of(c)
    with quiet():
        res = c.fit(method="BFGS", maxiter=2, **kw)
    nll_params = nll_of(c, {k: float(v) for k, v in res.params.items()})
    print(label)
    print("   start NLL", start)
    print("   FitResult.min_nll (observed):", res.min_nll, "  NLL at FitResult.params (expected):", nll_params)
    if abs(res.min_nll - nll_params) > 1e-7 * max(1.0, abs(nll_params)):
        print("   VIOLATION: min_nll != NLL(params)")
        bad = True
    if nll_params > start + 1e-9:
        print("   VIOLATION: the returned point is above the starting NLL")
        bad = True
sys.exit(1 if bad else 0)
