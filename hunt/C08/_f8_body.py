
"""
finding 8 (C08): ConfigLoader.fit(..., check_grad=True).  The gradient check that
fit_scipy runs AFTER the minimisation evaluates the FCN at xn[i] +- 1e-5 and only
restores the local list xn, not the model: the last evaluation (last trainable
parameter shifted by -1e-5) stays in the model and is what FitResult.params is
read from.  The returned parameters are therefore not the minimiser's final
point and min_nll is not the NLL at the returned parameters.
"""
cfg = base_config()
cfg["particle"]["R_BC"] = {"J": 1, "Par": 1, "m0": 4.16, "g0": 0.1, "float": "m",
                           "params": {"mass_min": 4.0, "mass_max": 4.2}}
bad = False
for method in ["BFGS", "L-BFGS-B"]:
    out = {}
    for cg in [False, True]:
        c = build(cfg, seed=3)
        with quiet():
            res = c.fit(method=method, maxiter=2, check_grad=cg)
        nll_params = nll_of(c, {k: float(v) for k, v in res.params.items()})
        out[cg] = (res, nll_params, c.vm.trainable_vars[-1])
    last = out[True][2]
    r0, r1 = out[False][0], out[True][0]
    print("method", method, " last trainable parameter:", last)
    print("   check_grad=False: min_nll", r0.min_nll, " NLL(params)", out[False][1], " %s = %.12f" % (last, float(r0.params[last])))
    print("   check_grad=True : min_nll", r1.min_nll, " NLL(params)", out[True][1], " %s = %.12f" % (last, float(r1.params[last])))
    rel = abs(r1.min_nll - out[True][1]) / max(1.0, abs(out[True][1]))
    print("   check_grad=True: |min_nll - NLL(params)| relative =", rel, " parameter shift =", float(r1.params[last]) - float(r0.params[last]), "(expected 0)")
    if rel > 1e-7:
        print("   VIOLATION")
        bad = True
sys.exit(1 if bad else 0)
