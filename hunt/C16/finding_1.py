"""C16 finding 1: VarsManager.std_polar does not bring the phase into [-pi, pi).
The result of _std_polar_angle(p) is discarded (variable.py:743)."""
import sys
import numpy as np
np.Inf = np.inf
from tf_pwa.variable import VarsManager

bad = False
for r0, p0 in [(1.5, 4.0), (-1.5, 3.0), (0.7, -9.0)]:
    vm = VarsManager(dtype="float64")
    vm.add_complex_var("a", polar=True)
    vm.set("ar", r0)
    vm.set("ai", p0)
    z0 = r0 * np.exp(1j * p0)
    vm.std_polar("a")
    r, p = float(vm.get("ar")), float(vm.get("ai"))
    z1 = r * np.exp(1j * p)
    p_exp = (np.angle(z0) + np.pi) % (2 * np.pi) - np.pi
    ok = r >= 0 and -np.pi <= p < np.pi and abs(z1 - z0) < 1e-12
    print(f"start (r,phi)=({r0},{p0}): observed (r,phi)=({r:.6f},{p:.6f}) "
          f"expected (r,phi)=({abs(r0):.6f},{p_exp:.6f})  value kept={abs(z1-z0)<1e-12}  {'OK' if ok else 'VIOLATION'}")
    bad |= not ok
sys.exit(1 if bad else 0)
