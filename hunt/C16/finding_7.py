"""C16 finding 7: tying a polar complex Variable to a Cartesian one shares the two real tf.Variables
but keeps the two different coordinate flags, so the tied parameters read different complex values
(variable.py:547-549 does not align complex_vars)."""
import sys
import numpy as np
np.Inf = np.inf
from tf_pwa.variable import VarsManager, Variable

vm = VarsManager(dtype="float64")
a = Variable("a", cplx=True, polar=True, vm=vm)
b = Variable("b", cplx=True, polar=False, vm=vm)
a.sameas(b)
vm.set("ar", 1.5); vm.set("ai", 0.3)
za, zb = a().numpy(), b().numpy()
print("a =", za, " b =", zb, " expected equal; coordinate flags", vm.complex_vars)
bad = abs(za - zb) > 1e-9
print("VIOLATION" if bad else "OK")
sys.exit(1 if bad else 0)
