"""C16 finding 4: chained complex ties are not merged by set_same(cplx=True)
(the `if name not in self.variables: continue` test at variable.py:511 uses the complex name, which
is never a key of vm.variables).
 (a) a.sameas(b); b.sameas(c); rp2xy_all()  -> converted twice, complex value changes.
 (b) a.sameas(b); c.sameas(b)               -> b is silently un-tied from a, and b,c are
     dropped from the free-parameter list (become fixed)."""
import sys
import numpy as np
np.Inf = np.inf
import tensorflow as tf
tf.random.set_seed(1)
from tf_pwa.variable import VarsManager, Variable

bad = False
vm = VarsManager(dtype="float64")
A, B, C = [Variable(n, cplx=True, polar=True, vm=vm) for n in "abc"]
A.sameas(B); B.sameas(C)
vm.set("ar", 1.5); vm.set("ai", 0.3)
z0 = [v().numpy() for v in (A, B, C)]
vm.rp2xy_all()
z1 = [v().numpy() for v in (A, B, C)]
print("(a) same_list", vm.same_list)
print("(a) before", z0)
print("(a) after rp2xy_all", z1, " expected unchanged")
bad |= max(abs(np.array(z0) - np.array(z1))) > 1e-9

vm = VarsManager(dtype="float64")
A, B, C = [Variable(n, cplx=True, polar=True, vm=vm) for n in "abc"]
A.sameas(B); C.sameas(B)
vm.set("ar", 1.5); vm.set("ai", 0.3)
z = [v().numpy() for v in (A, B, C)]
print("(b) a,b,c =", z, " expected all equal")
print("(b) free parameters", vm.trainable_vars, " b same object as a:", vm.variables["br"] is vm.variables["ar"])
bad |= abs(z[0] - z[1]) > 1e-9 or abs(z[0] - z[2]) > 1e-9
print("VIOLATION" if bad else "OK")
sys.exit(1 if bad else 0)
