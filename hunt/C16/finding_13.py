"""C16 finding 13: VarsManager.minimize evaluates the bound slope dy/dx at the PHYSICAL values
(ret.x has already been overwritten by get_all_val(), variable.py:992-995) instead of at the fit
coordinates, so the returned error matrix of a bounded parameter is wrong."""
import sys
import numpy as np
np.Inf = np.inf
from tf_pwa.variable import VarsManager, Variable

vm = VarsManager(dtype="float64")
a = Variable("a", vm=vm, value=1.0)
b = Variable("b", vm=vm, value=0.3)
a.set_bound((0.0, 3.0))

def fcn():
    return (a() - 2.0) ** 2 + (b() - 1.0) ** 2     # Hessian = 2*I  -> covariance 0.5*I

ret = vm.minimize(fcn)
print("minimum", ret.x)
print("observed var(a) =", ret.hess_inv[0, 0], " var(b) =", ret.hess_inv[1, 1], " expected 0.5, 0.5")
bd = vm.bnd_dic["a"]
x_true = bd.get_y2x(ret.x[0])
print("slope used dy/dx(x=y=%.4f) = %.4f ; correct dy/dx(x=%.4f) = %.4f"
      % (ret.x[0], bd.get_dydx(ret.x[0]), x_true, bd.get_dydx(x_true)))
bad = abs(ret.hess_inv[0, 0] - 0.5) > 0.1
print("VIOLATION" if bad else "OK")
sys.exit(1 if bad else 0)
