"""C16 finding 2: std_polar_all()/trans_params(True) flips the sign of complex parameters that
share their radius (set_share_r / Variable.r_shareto / set_same_ratio) when the shared r is negative:
only the phase of the first member is shifted by pi (variable.py:736-742, 498)."""
import sys
import numpy as np
np.Inf = np.inf
import tensorflow as tf
tf.random.set_seed(1)
from tf_pwa.variable import VarsManager, Variable

vm = VarsManager(dtype="float64")
a = Variable("a", cplx=True, polar=True, vm=vm)
b = Variable("b", cplx=True, polar=True, vm=vm)
a.r_shareto(b)
vm.set("ar", -1.5)
vm.set("ai", 0.3)
vm.set("bi", 1.0)
a0, b0 = a().numpy(), b().numpy()
vm.std_polar_all()
a1, b1 = a().numpy(), b().numpy()
print("a before", a0, "after", a1, "expected", a0)
print("b before", b0, "after", b1, "expected", b0)
bad = abs(a1 - a0) > 1e-9 or abs(b1 - b0) > 1e-9
print("VIOLATION" if bad else "OK")
sys.exit(1 if bad else 0)
