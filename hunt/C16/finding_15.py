"""C16 finding 15: Variable.fixed
 - fixed(z) on a polar complex Variable stores (Re z, Im z) as (r, phi): fixed(1j) gives the value 0
   instead of 1j (variable.py:1493-1500; same for fix=True, fix_vals=(0,1) whose doc says value is
   fix_vals[0]+fix_vals[1]j).
 - fixed() without value on a cp-effect Variable does nothing (set_fix calls are inside the else
   branch, variable.py:1483-1492)."""
import sys
import numpy as np
np.Inf = np.inf
from tf_pwa.variable import VarsManager, Variable

bad = False
vm = VarsManager(dtype="float64")
a = Variable("a", cplx=True, polar=True, vm=vm)
a.fixed(1j)
print("polar a.fixed(1j): value", a().numpy(), " expected 1j")
bad |= abs(a().numpy() - 1j) > 1e-9
c = Variable("c", cplx=True, is_cp=True, vm=vm)
c.fixed()
print("cp c.fixed(): is_fixed", c.is_fixed(), " expected True; free list still has",
      [n for n in vm.trainable_vars if n.startswith("c")])
bad |= not c.is_fixed()
print("VIOLATION" if bad else "OK")
sys.exit(1 if bad else 0)
