"""C16 finding 10: fix / free applied to a non-head member of a tie (ConfigLoader applies coef_head /
'equal' ties in add_particle_constraints BEFORE fix_var / free_var, config_loader.py:262-265).
 - set_fix(b, unfix=True): the shared tf.Variable is listed twice among the free parameters.
 - set_fix(b, value): head 'a' stays in the free list (ndf=1) although the pair is fixed, and a
   set_all(list) moves the 'fixed' parameter (variable.py:415-440 ignores same_list)."""
import sys, warnings
import numpy as np
np.Inf = np.inf
from tf_pwa.variable import VarsManager, Variable
warnings.simplefilter("ignore")

bad = False
vm = VarsManager(dtype="float64")
a = Variable("a", vm=vm, value=0.5); b = Variable("b", vm=vm, value=0.7)
a.sameas(b)
vm.set_fix("b", unfix=True)
n_unique = len({id(v) for v in vm.trainable_variables})
print("free list after freeing tied b:", vm.trainable_vars, " unique tf.Variables:", n_unique, " expected 1 entry")
bad |= len(vm.trainable_vars) != n_unique

vm = VarsManager(dtype="float64")
a = Variable("a", vm=vm, value=0.5); b = Variable("b", vm=vm, value=0.7)
a.sameas(b)
vm.set_fix("b", 1.0)
print("free list after fixing tied b:", vm.trainable_vars, " expected []")
vm.set_all([2.5])          # what a minimiser does every step
print("fixed b after set_all([2.5]):", float(vm.get("b")), " expected 1.0")
bad |= float(vm.get("b")) != 1.0 or vm.trainable_vars != []
print("VIOLATION" if bad else "OK")
sys.exit(1 if bad else 0)
