"""C16 finding 11: with a bound registered, VarsManager.set_fix(name, value) / Variable.fixed(value)
store get_y2x(value) - the unbounded fit coordinate x - in the tf.Variable, which everywhere else
holds the physical value y (variable.py:426-429).  The parameter is fixed at a wrong value that can
even lie outside its bound."""
import sys
import numpy as np
np.Inf = np.inf
from tf_pwa.variable import VarsManager, Variable

vm = VarsManager(dtype="float64")
m = Variable("m", vm=vm, value=1.0)
m.set_bound((0.5, 2.0))
m.fixed(1.2)
obs = float(m())
print("m.fixed(1.2) with bound (0.5, 2.0): model sees m =", obs, " expected 1.2")
print("get_all_dic:", vm.get_all_dic())
bad = abs(obs - 1.2) > 1e-9
print("VIOLATION" if bad else "OK")
sys.exit(1 if bad else 0)
