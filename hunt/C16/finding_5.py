"""C16 finding 5: set_same that joins two existing tie groups only re-points the group heads;
the other members of the second group keep the old tf.Variable (variable.py:519-551)."""
import sys
import numpy as np
np.Inf = np.inf
from tf_pwa.variable import VarsManager

vm = VarsManager(dtype="float64")
for n, v in zip("abcd", [1.0, 2.0, 3.0, 4.0]):
    vm.add_real_var(n, value=v)
vm.set_same(["a", "b"])
vm.set_same(["c", "d"])
vm.set_same(["b", "d"])       # now a=b=c=d is requested
vm.set("a", 9.0)
vals = {n: float(vm.get(n)) for n in "abcd"}
print("same_list", vm.same_list, "free", vm.trainable_vars)
print("observed", vals, " expected all 9.0")
bad = len(set(vals.values())) != 1
print("VIOLATION" if bad else "OK")
sys.exit(1 if bad else 0)
