"""C16 finding 8: Variable.set_value / set_rho / set_phi with index=... build the component name from
index[index[k]] instead of index[k] (variable.py:1316-1317, 1410-1411, 1435-1436): the wrong element
is assigned (or IndexError)."""
import sys
import numpy as np
np.Inf = np.inf
import tensorflow as tf
tf.random.set_seed(1)
from tf_pwa.variable import VarsManager, Variable

vm = VarsManager(dtype="float64")
v = Variable("v", shape=[2, 2], vm=vm, value=0.0)
v.set_value(5.0, index=[1, 0])
obs = v().numpy()
exp = np.array([[0.0, 0.0], [5.0, 0.0]])
print("observed\n", obs, "\nexpected\n", exp)
bad = not np.allclose(obs, exp)
w = Variable("w", shape=[2, 2], cplx=True, polar=True, vm=vm)
before = np.abs(w().numpy()).copy()
w.set_rho(7.0, index=[1, 0])
after = np.abs(w().numpy())
print("set_rho(7, index=[1,0]): |w| before\n", before, "\nafter\n", after, "\nexpected only element [1,0] -> 7")
bad |= abs(after[1, 0] - 7.0) > 1e-9
print("VIOLATION" if bad else "OK")
sys.exit(1 if bad else 0)
