"""C16 finding 6: tying a free parameter (first in the list) to a FIXED one silently replaces the fixed
value by the free parameter's (random) value and fixes both (variable.py:530-545: `var` is always the
first name's tf.Variable).  Config level: decay constraint fix_chain_idx pointing at a chain that is a
non-head member of a coef_head group -> the requested fix_chain_val is lost."""
import sys
import numpy as np
np.Inf = np.inf
import tensorflow as tf
tf.random.set_seed(1); np.random.seed(1)
from tf_pwa.variable import VarsManager

bad = False
vm = VarsManager(dtype="float64")
vm.add_real_var("a", value=0.7)                    # free
vm.add_real_var("b", value=3.0, trainable=False)   # fixed at 3.0
vm.set_same(["a", "b"])
print("[vm] fixed b: observed", float(vm.get("b")), "expected 3.0 ; free list", vm.trainable_vars)
bad |= abs(float(vm.get("b")) - 3.0) > 1e-12

from tf_pwa.config_loader import ConfigLoader
cfg = {
 "data": {"dat_order": ["B", "C", "D"]},
 "decay": {"A": [["R1", "D"], ["R2", "D"], ["R_BD", "C"]], "R1": ["B", "C"], "R2": ["B", "C"], "R_BD": ["B", "D"]},
 "particle": {"$top": {"A": {"J": 1, "P": -1, "mass": 4.6}},
   "$finals": {"B": {"J": 1, "P": -1, "mass": 2.00698}, "C": {"J": 1, "P": -1, "mass": 2.01028}, "D": {"J": 0, "P": -1, "mass": 0.13957}},
   "R1": {"J": 1, "Par": 1, "m0": 4.16, "g0": 0.1},
   "R2": {"J": 1, "Par": 1, "m0": 4.26, "g0": 0.1, "coef_head": "R1"},
   "R_BD": {"J": 1, "Par": 1, "m0": 2.43, "g0": 0.3}},
 "constrains": {"particle": None, "decay": {"fix_chain_idx": 1, "fix_chain_val": 1.0}},
}
c = ConfigLoader(cfg)
amp = c.get_amplitude()
name = "A->R2.DR2->B.C_total_0r"
v = float(c.get_params()[name])
print("[config] fixed", name, ": observed", v, "expected 1.0 (fix_chain_val); in free list:", name in amp.vm.trainable_vars)
bad |= abs(v - 1.0) > 1e-12
print("VIOLATION" if bad else "OK")
sys.exit(1 if bad else 0)
