"""C16 finding 12: fit_scipy installs the bounds in vm.bnd_dic and removes them only on the normal
path; when the fit is aborted by LargeNumberError (fit.py:300-334 `return except_result(...)`) the
bounds stay in the VarsManager.  Afterwards plain value assignments (vm.set / Variable.set_value /
set_rho, val_in_fit=True by default) are silently passed through the bound transformation."""
import sys, io, contextlib
import numpy as np
np.Inf = np.inf
import tensorflow as tf
from tf_pwa.variable import VarsManager, Variable
from tf_pwa.fit import fit_scipy

vm = VarsManager(dtype="float64")
a = Variable("a", vm=vm, value=1.0)
b = Variable("b", vm=vm, value=0.3)

class FCN:
    def __init__(self, vm):
        self.vm = vm
        self.cached_nll = 0.0
    def nll_grad(self, x):
        self.vm.set_all(x)
        with tf.GradientTape() as t:
            y = -tf.math.log(1 + a() ** 2) + (b() - 1.0) ** 2   # unbounded in a
        g = t.gradient(y, self.vm.trainable_variables, unconnected_gradients="zero")
        self.cached_nll = float(y)
        return float(y), np.array([float(i) for i in g])
    def get_params(self):
        return self.vm.get_all_dic()

with contextlib.redirect_stdout(io.StringIO()):
    r = fit_scipy(FCN(vm), bounds_dict={"b": (0.0, 3.0)}, gtol=1e-13)
print("fit success:", r.success, " bounds left in vm.bnd_dic:", vm.bnd_dic, " expected {}")
vm.set("b", 1.2)
obs = float(vm.get("b", val_in_fit=False))
print("vm.set('b', 1.2) afterwards stores", obs, " expected 1.2")
bad = bool(vm.bnd_dic) or abs(obs - 1.2) > 1e-9
print("VIOLATION" if bad else "OK")
sys.exit(1 if bad else 0)
