"""C16 finding 14: coordinate operations move FIXED components.
 - std_polar_all()/trans_params(True): a fixed phase is shifted by pi when the free r is negative
   (variable.py:727-750; only standard_complex() guards this).
 - rp2xy_all(): a fixed phase 0.5 becomes a fixed 'y' = r*sin(0.5)."""
import sys
import numpy as np
np.Inf = np.inf
from tf_pwa.variable import VarsManager, Variable

bad = False
vm = VarsManager(dtype="float64")
a = Variable("a", cplx=True, polar=True, vm=vm)
vm.set_fix("ai", 0.5)
vm.set("ar", -2.0)
vm.std_polar_all()
print("std_polar_all: fixed ai observed", float(vm.get("ai")), " expected 0.5 ; free:", vm.trainable_vars)
bad |= abs(float(vm.get("ai")) - 0.5) > 1e-12

vm = VarsManager(dtype="float64")
a = Variable("a", cplx=True, polar=True, vm=vm)
vm.set_fix("ai", 0.5)
vm.set("ar", 2.0)
vm.rp2xy_all()
print("rp2xy_all: fixed ai observed", float(vm.get("ai")), " expected 0.5 ; free:", vm.trainable_vars)
bad |= abs(float(vm.get("ai")) - 0.5) > 1e-12
print("VIOLATION" if bad else "OK")
sys.exit(1 if bad else 0)
