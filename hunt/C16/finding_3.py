"""C16 finding 3: rp2xy_all()/trans_params(False) corrupts complex parameters whose r (or phase)
component is tied (set_share_r, r_shareto, coef_head, var_equal on components):
the shared tf.Variable is overwritten with x of the first member and then re-interpreted as r
by the others (variable.py:598-616).  Also shown on a ConfigLoader model with coef_head, where a
FIXED parameter (the fixed total r) changes too."""
import sys
import numpy as np
np.Inf = np.inf
import tensorflow as tf
from tf_pwa.variable import VarsManager, Variable

bad = False
vm = VarsManager(dtype="float64")
a = Variable("a", cplx=True, polar=True, vm=vm)
b = Variable("b", cplx=True, polar=True, vm=vm)
a.r_shareto(b)
vm.set("ar", 1.5); vm.set("ai", 0.3); vm.set("bi", 1.0)
a0, b0 = a().numpy(), b().numpy()
vm.rp2xy_all()
a1, b1 = a().numpy(), b().numpy()
print("[vm] a before", a0, "after rp2xy_all", a1)
print("[vm] b before", b0, "after rp2xy_all", b1)
bad |= abs(a1 - a0) > 1e-9 or abs(b1 - b0) > 1e-9

# config level
tf.random.set_seed(1); np.random.seed(1)
from tf_pwa.config_loader import ConfigLoader
cfg = {
 "data": {"dat_order": ["B", "C", "D"]},
 "decay": {"A": [["R1", "D"], ["R2", "D"], ["R_BD", "C"]], "R1": ["B", "C"], "R2": ["B", "C"], "R_BD": ["B", "D"]},
 "particle": {"$top": {"A": {"J": 1, "P": -1, "mass": 4.6}},
   "$finals": {"B": {"J": 1, "P": -1, "mass": 2.00698}, "C": {"J": 1, "P": -1, "mass": 2.01028}, "D": {"J": 0, "P": -1, "mass": 0.13957}},
   "R1": {"J": 1, "Par": 1, "m0": 4.16, "g0": 0.1},
   "R2": {"J": 1, "Par": 1, "m0": 4.26, "g0": 0.1, "coef_head": "R1"},
   "R_BD": {"J": 1, "Par": 1, "m0": 2.43, "g0": 0.3}},
 "constrains": {"particle": None, "decay": {"fix_chain_idx": 0, "fix_chain_val": 1.0}},
}
c = ConfigLoader(cfg)
amp = c.get_amplitude()
tot0 = [ch.total().numpy()[0] for ch in amp.decay_group]
amp.vm.rp2xy_all()
tot1 = [ch.total().numpy()[0] for ch in amp.decay_group]
for ch, t0, t1 in zip(amp.decay_group, tot0, tot1):
    print("[config]", ch, "total before", t0, "after rp2xy_all", t1)
    bad |= abs(t0 - t1) > 1e-9
print("VIOLATION" if bad else "OK")
sys.exit(1 if bad else 0)
