"""C16 finding 9: mask_params
 (a) a tied pair reads different values under a mask (read() looks the mask up by name only,
     variable.py:571-578);
 (b) get_all_dic() followed by set_all() inside a mask writes the mask value permanently into the
     parameter ("read all, write back" is not a no-op);
 (c) a nested mask_params replaces the outer mask instead of adding to it (variable.py:945-951)."""
import sys
import numpy as np
np.Inf = np.inf
from tf_pwa.variable import VarsManager, Variable

bad = False
vm = VarsManager(dtype="float64")
a = Variable("a", vm=vm, value=1.0); b = Variable("b", vm=vm, value=2.0)
a.sameas(b)
with vm.mask_params({"b": 0.0}):
    va, vb = float(a()), float(b())
print("(a) tied under mask {b:0}: a =", va, " b =", vb, " expected equal")
bad |= va != vb

vm = VarsManager(dtype="float64")
a = Variable("a", vm=vm, value=1.0)
with vm.mask_params({"a": 0.0}):
    vm.set_all(vm.get_all_dic())
print("(b) after mask+roundtrip: a =", float(a()), " expected 1.0")
bad |= float(a()) != 1.0

vm = VarsManager(dtype="float64")
a = Variable("a", vm=vm, value=0.5); b = Variable("b", vm=vm, value=0.7)
with vm.mask_params({"a": 0.0}):
    with vm.mask_params({"b": 0.0}):
        va, vb = float(a()), float(b())
print("(c) nested masks: a =", va, " b =", vb, " expected 0.0 0.0")
bad |= (va, vb) != (0.0, 0.0)
print("VIOLATION" if bad else "OK")
sys.exit(1 if bad else 0)
