"""C16 finding 16: a bound put on a non-head member of a tie is silently ignored by the fit
transformation (trans_fcn_grad & co. look bounds up by the names in trainable_vars only,
variable.py:814-817), so the bounded parameter leaves its allowed range."""
import sys
import numpy as np
np.Inf = np.inf
from tf_pwa.variable import VarsManager, Variable

vm = VarsManager(dtype="float64")
a = Variable("a", vm=vm, value=0.5)
b = Variable("b", vm=vm, value=0.7)
a.sameas(b)
b.set_bound((0.0, 1.0))
ret = vm.minimize(lambda: (a() - 2.0) ** 2 + (b() - 2.0) ** 2)
obs = float(vm.get("b", val_in_fit=False))
print("b bounded to (0, 1), tied to a; after minimize b =", obs, " expected <= 1.0")
bad = not (0.0 <= obs <= 1.0 + 1e-9)
print("VIOLATION" if bad else "OK")
sys.exit(1 if bad else 0)
