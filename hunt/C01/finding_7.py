"""C01 finding 7: data option cp_particles (self-conjugate final state): (a) DecayGroup.get_amp3 reverses the helicity
index of the PARENT too -> rotation dependence for J_parent>0; (b) cp_swap_p reflects the LAB momenta, with the default
random_z the z axis (parent direction) flips for the CP image -> boost dependence even for a spin-0 parent."""
import sys
import numpy as np
np.Inf = np.inf
import tensorflow as tf
np.random.seed(0); tf.random.set_seed(0)
from tf_pwa.config_loader import ConfigLoader
from tf_pwa.phasespace import PhaseSpaceGenerator

TOL = 1e-7

def phsp(m0, ms, n, seed=1):
    tf.random.set_seed(seed); np.random.seed(seed)
    return [np.array(i) for i in PhaseSpaceGenerator(m0, ms).generate(n)]

def rot(axis, th):
    axis = np.asarray(axis, float); axis = axis / np.linalg.norm(axis)
    K = np.array([[0, -axis[2], axis[1]], [axis[2], 0, -axis[0]], [-axis[1], axis[0], 0]])
    L = np.eye(4); L[1:, 1:] = np.eye(3) + np.sin(th) * K + (1 - np.cos(th)) * K @ K
    return L

def boost(beta):
    beta = np.asarray(beta, float); b2 = beta @ beta; g = 1 / np.sqrt(1 - b2)
    L = np.eye(4); L[0, 0] = g; L[0, 1:] = g * beta; L[1:, 0] = g * beta
    L[1:, 1:] += (g - 1) / b2 * np.outer(beta, beta)
    return L

def apply(L, ps):
    return [p @ L.T for p in ps]

def parity(ps):
    return [p * np.array([1, -1, -1, -1.0]) for p in ps]

def randomize(config, seed=3):
    amp = config.get_amplitude()
    np.random.seed(seed)
    old = amp.get_params()
    new = {}
    for k in amp.vm.trainable_vars:
        new[k] = old[k] if (k.endswith("_mass") or k.endswith("_width")) else np.random.uniform(-1, 1)
    amp.set_params(new)

def dens(config, ps):
    amp = config.get_amplitude()
    data = config.data.cal_angle([tf.constant(p, dtype=tf.float64) for p in ps])
    return np.array(amp(data))

BAD = []
def compare(label, d_obs, d_exp):
    rel = np.abs(d_obs - d_exp) / np.abs(d_exp)
    bad = not np.all(np.isfinite(d_obs)) or not (np.nanmax(rel) < TOL)
    i = int(np.nanargmax(np.where(np.isfinite(rel), rel, np.inf))) if not np.all(np.isfinite(rel)) else int(np.argmax(rel))
    print("%-58s expected %.12g  observed %.12g  (event %d, max rel. diff %.3g) %s"
          % (label, d_exp[i], d_obs[i], i, np.nanmax(rel) if np.any(np.isfinite(rel)) else np.nan, "VIOLATION" if bad else "ok"))
    if bad:
        BAD.append(label)

def finish():
    if BAD:
        print("VIOLATION PRESENT:", BAD)
        sys.exit(1)
    print("no violation")
    sys.exit(0)

def mk(JA, opts={}):
    cfg = {
     "data": {"dat_order": ["pip", "pim", "jpsi"], "cp_particles": [["pip", "pim"]], **opts},
     "decay": {"X": [["Zc", "pim"], ["jpsi", "rho"]], "Zc": ["pip", "jpsi"], "rho": ["pip", "pim", {"c_break": False}]},
     "particle": {"$top": {"X": {"J": JA, "P": -1, "C": -1, "mass": 4.6}},
       "$finals": {"pip": {"J": 0, "P": -1, "mass": 0.139}, "pim": {"J": 0, "P": -1, "mass": 0.139},
                   "jpsi": {"J": 1, "P": -1, "C": -1, "mass": 3.0}},
       "Zc": {"J": 1, "P": 1, "mass": 3.9, "width": 0.05}, "rho": {"J": 1, "P": -1, "C": -1, "mass": 0.9, "width": 0.15}},
    }
    if JA == 0:
        cfg["particle"]["$top"]["X"].update({"P": 1, "C": 1})
    return cfg
ps = phsp(4.6, [0.139, 0.139, 3.0], 30)
np.random.seed(0)
c = ConfigLoader(mk(1, {"random_z": False})); randomize(c)
d0 = dens(c, ps)
compare("(a) J_parent=1, random_z=False: rotation about z", dens(c, apply(rot([0, 0, 1], 1.1), ps)), d0)
compare("(a) J_parent=1, random_z=False: rotation", dens(c, apply(rot([1, 2, 3], 2.3), ps)), d0)
np.random.seed(0)
c = ConfigLoader(mk(0)); randomize(c)
d0 = dens(c, ps)
compare("(b) J_parent=0, default options: rotation", dens(c, apply(rot([1, 2, 3], 2.3), ps)), d0)
compare("(b) J_parent=0, default options: boost along z", dens(c, apply(boost([0, 0, 0.6]), ps)), d0)
compare("(b) J_parent=0, default options: boost", dens(c, apply(boost([0.3, -0.5, 0.4]), ps)), d0)
finish()
