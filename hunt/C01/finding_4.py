"""C01 finding 4: three identical half-integer-spin final particles: DecayGroup.get_swap_factor gives -1 to the
cyclic (even) permutations, so the density is not symmetric under exchanging identical particles."""
import sys
import numpy as np
np.Inf = np.inf
import tensorflow as tf
np.random.seed(0); tf.random.set_seed(0)
from tf_pwa.config_loader import ConfigLoader
from tf_pwa.phasespace import PhaseSpaceGenerator

TOL = 1e-7

def phsp(m0, ms, n, seed=1):
    tf.random.set_seed(seed); np.random.seed(seed)
    return [np.array(i) for i in PhaseSpaceGenerator(m0, ms).generate(n)]

def rot(axis, th):
    axis = np.asarray(axis, float); axis = axis / np.linalg.norm(axis)
    K = np.array([[0, -axis[2], axis[1]], [axis[2], 0, -axis[0]], [-axis[1], axis[0], 0]])
    L = np.eye(4); L[1:, 1:] = np.eye(3) + np.sin(th) * K + (1 - np.cos(th)) * K @ K
    return L

def boost(beta):
    beta = np.asarray(beta, float); b2 = beta @ beta; g = 1 / np.sqrt(1 - b2)
    L = np.eye(4); L[0, 0] = g; L[0, 1:] = g * beta; L[1:, 0] = g * beta
    L[1:, 1:] += (g - 1) / b2 * np.outer(beta, beta)
    return L

def apply(L, ps):
    return [p @ L.T for p in ps]

def parity(ps):
    return [p * np.array([1, -1, -1, -1.0]) for p in ps]

def randomize(config, seed=3):
    amp = config.get_amplitude()
    np.random.seed(seed)
    old = amp.get_params()
    new = {}
    for k in amp.vm.trainable_vars:
        new[k] = old[k] if (k.endswith("_mass") or k.endswith("_width")) else np.random.uniform(-1, 1)
    amp.set_params(new)

def dens(config, ps):
    amp = config.get_amplitude()
    data = config.data.cal_angle([tf.constant(p, dtype=tf.float64) for p in ps])
    return np.array(amp(data))

BAD = []
def compare(label, d_obs, d_exp):
    rel = np.abs(d_obs - d_exp) / np.abs(d_exp)
    bad = not np.all(np.isfinite(d_obs)) or not (np.nanmax(rel) < TOL)
    i = int(np.nanargmax(np.where(np.isfinite(rel), rel, np.inf))) if not np.all(np.isfinite(rel)) else int(np.argmax(rel))
    print("%-58s expected %.12g  observed %.12g  (event %d, max rel. diff %.3g) %s"
          % (label, d_exp[i], d_obs[i], i, np.nanmax(rel) if np.any(np.isfinite(rel)) else np.nan, "VIOLATION" if bad else "ok"))
    if bad:
        BAD.append(label)

def finish():
    if BAD:
        print("VIOLATION PRESENT:", BAD)
        sys.exit(1)
    print("no violation")
    sys.exit(0)

import itertools
cfg = {
 "data": {"dat_order": ["B1", "B2", "B3"], "identical_particles": [["B1", "B2", "B3"]]},
 "decay": {"A": [["R", "B3"]], "R": ["B1", "B2"]},
 "particle": {"$top": {"A": {"J": 0.5, "P": 1, "mass": 3.6}},
   "$finals": {k: {"J": 0.5, "P": -1, "mass": 0.5} for k in ["B1", "B2", "B3"]},
   "R": {"J": 1, "P": 1, "mass": 1.6, "width": 0.2}},
}
c = ConfigLoader(cfg); randomize(c)
dg = c.get_amplitude().decay_group
ps = phsp(3.6, [0.5, 0.5, 0.5], 20)
data = c.data.cal_angle([tf.constant(p) for p in ps])
for k in data["id_swap"]:
    names = k[1][0]
    perm = [["B1", "B2", "B3"].index(n) for n in names]
    inv = sum(1 for i in range(3) for j in range(i + 1, 3) if perm[i] > perm[j])
    exp = (-1.0) ** inv
    obs = dg.get_swap_factor(k)
    print("permutation", names, "swap factor expected", exp, "observed", obs, "ok" if exp == obs else "VIOLATION")
    if exp != obs:
        BAD.append("sign " + str(names))
d0 = dens(c, ps)
for o in itertools.permutations(range(3)):
    if o != (0, 1, 2):
        compare("momenta permuted " + str(o), dens(c, [ps[i] for i in o]), d0)
finish()
