"""C01 finding 5: exactly collinear two-body sub-decay (Dalitz-plot boundary, cos(theta)=+-1 grid points):
the degenerate fallback of Vector3.cross_unit gives the SECOND daughter a spin frame rotated by pi w.r.t. the generic
convention -> density jumps at the boundary, depends on the frame, and is NaN when the line of flight is (1,1,1)."""
import sys
import numpy as np
np.Inf = np.inf
import tensorflow as tf
np.random.seed(0); tf.random.set_seed(0)
from tf_pwa.config_loader import ConfigLoader
from tf_pwa.phasespace import PhaseSpaceGenerator

TOL = 1e-7

def phsp(m0, ms, n, seed=1):
    tf.random.set_seed(seed); np.random.seed(seed)
    return [np.array(i) for i in PhaseSpaceGenerator(m0, ms).generate(n)]

def rot(axis, th):
    axis = np.asarray(axis, float); axis = axis / np.linalg.norm(axis)
    K = np.array([[0, -axis[2], axis[1]], [axis[2], 0, -axis[0]], [-axis[1], axis[0], 0]])
    L = np.eye(4); L[1:, 1:] = np.eye(3) + np.sin(th) * K + (1 - np.cos(th)) * K @ K
    return L

def boost(beta):
    beta = np.asarray(beta, float); b2 = beta @ beta; g = 1 / np.sqrt(1 - b2)
    L = np.eye(4); L[0, 0] = g; L[0, 1:] = g * beta; L[1:, 0] = g * beta
    L[1:, 1:] += (g - 1) / b2 * np.outer(beta, beta)
    return L

def apply(L, ps):
    return [p @ L.T for p in ps]

def parity(ps):
    return [p * np.array([1, -1, -1, -1.0]) for p in ps]

def randomize(config, seed=3):
    amp = config.get_amplitude()
    np.random.seed(seed)
    old = amp.get_params()
    new = {}
    for k in amp.vm.trainable_vars:
        new[k] = old[k] if (k.endswith("_mass") or k.endswith("_width")) else np.random.uniform(-1, 1)
    amp.set_params(new)

def dens(config, ps):
    amp = config.get_amplitude()
    data = config.data.cal_angle([tf.constant(p, dtype=tf.float64) for p in ps])
    return np.array(amp(data))

BAD = []
def compare(label, d_obs, d_exp):
    rel = np.abs(d_obs - d_exp) / np.abs(d_exp)
    bad = not np.all(np.isfinite(d_obs)) or not (np.nanmax(rel) < TOL)
    i = int(np.nanargmax(np.where(np.isfinite(rel), rel, np.inf))) if not np.all(np.isfinite(rel)) else int(np.argmax(rel))
    print("%-58s expected %.12g  observed %.12g  (event %d, max rel. diff %.3g) %s"
          % (label, d_exp[i], d_obs[i], i, np.nanmax(rel) if np.any(np.isfinite(rel)) else np.nan, "VIOLATION" if bad else "ok"))
    if bad:
        BAD.append(label)

def finish():
    if BAD:
        print("VIOLATION PRESENT:", BAD)
        sys.exit(1)
    print("no violation")
    sys.exit(0)

cfg = {
 "data": {"dat_order": ["B", "C", "D"]},
 "decay": {"A": [["R_BC", "D"], ["R_BD", "C"], ["R_CD", "B"]], "R_BC": ["B", "C"], "R_BD": ["B", "D"], "R_CD": ["C", "D"]},
 "particle": {"$top": {"A": {"J": 1, "P": -1, "mass": 4.6}},
   "$finals": {"B": {"J": 1, "P": -1, "mass": 2.1}, "C": {"J": 1, "P": -1, "mass": 1.8}, "D": {"J": 0, "P": -1, "mass": 0.1}},
   "R_BC": {"J": 1, "P": 1, "mass": 4.1, "width": 0.1}, "R_BD": {"J": 1, "P": 1, "mass": 2.4, "width": 0.05},
   "R_CD": {"J": 1, "P": -1, "mass": 2.0, "width": 0.1}},
}
c = ConfigLoader(cfg); randomize(c)

def two_body(M, m1, m2, n):
    n = np.asarray(n, float); n = n / np.linalg.norm(n)
    p = np.sqrt((M**2 - (m1 + m2) ** 2) * (M**2 - (m1 - m2) ** 2)) / (2 * M)
    return np.array([np.sqrt(m1**2 + p**2), *(p * n)]), np.array([np.sqrt(m2**2 + p**2), *(-p * n)])

def event(n1, n2, mR=4.1):
    """A -> R_BC D along n1 (A frame);  R_BC -> B C along n2 (R_BC frame)"""
    R, D = two_body(4.6, mR, 0.1, n1)
    B, C = two_body(mR, 2.1, 1.8, n2)
    L = boost(R[1:] / R[0])
    return [(L @ B)[None], (L @ C)[None], D[None]]

n = (0.3, 0.4, 0.5)
d_lim = dens(c, event(n, (0.3, 0.4 - 1e-6, 0.5)))          # 1e-6 rad away from collinear
d_lim2 = dens(c, event(n, (0.3, 0.4 - 2e-6, 0.5)))
print("continuity check of the limit: %.10g %.10g" % (d_lim[0], d_lim2[0]))
compare("cos(theta)=+1 exactly, line of flight (.3,.4,.5)", dens(c, event(n, n)), d_lim)
d_limb = dens(c, event(n, (-0.3, -0.4 + 1e-6, -0.5)))
compare("cos(theta)=-1 exactly, line of flight (.3,.4,.5)", dens(c, event(n, (-0.3, -0.4, -0.5))), d_limb)
ez = event((0, 0, 1), (0, 0, 1))
compare("collinear along z: value", dens(c, ez), d_lim)
compare("collinear along z: boosted along x vs unboosted", dens(c, apply(boost([0.5, 0, 0]), ez)), dens(c, ez))
compare("collinear along (1,1,1): finite", dens(c, event((1, 1, 1), (1, 1, 1))), d_lim)
finish()
