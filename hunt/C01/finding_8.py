"""C01 finding 8: decay model "helicity_parity" claims H_{-m1,-m2} = P0 P1 P2 (-1)^{J1+J2-J0} H_{m1,m2} but leaves the
self-conjugate middle row/column (m=0 of the split particle) free -> a "parity conserving" 4-body decay is not P invariant."""
import sys
import numpy as np
np.Inf = np.inf
import tensorflow as tf
np.random.seed(0); tf.random.set_seed(0)
from tf_pwa.config_loader import ConfigLoader
from tf_pwa.phasespace import PhaseSpaceGenerator

TOL = 1e-7

def phsp(m0, ms, n, seed=1):
    tf.random.set_seed(seed); np.random.seed(seed)
    return [np.array(i) for i in PhaseSpaceGenerator(m0, ms).generate(n)]

def rot(axis, th):
    axis = np.asarray(axis, float); axis = axis / np.linalg.norm(axis)
    K = np.array([[0, -axis[2], axis[1]], [axis[2], 0, -axis[0]], [-axis[1], axis[0], 0]])
    L = np.eye(4); L[1:, 1:] = np.eye(3) + np.sin(th) * K + (1 - np.cos(th)) * K @ K
    return L

def boost(beta):
    beta = np.asarray(beta, float); b2 = beta @ beta; g = 1 / np.sqrt(1 - b2)
    L = np.eye(4); L[0, 0] = g; L[0, 1:] = g * beta; L[1:, 0] = g * beta
    L[1:, 1:] += (g - 1) / b2 * np.outer(beta, beta)
    return L

def apply(L, ps):
    return [p @ L.T for p in ps]

def parity(ps):
    return [p * np.array([1, -1, -1, -1.0]) for p in ps]

def randomize(config, seed=3):
    amp = config.get_amplitude()
    np.random.seed(seed)
    old = amp.get_params()
    new = {}
    for k in amp.vm.trainable_vars:
        new[k] = old[k] if (k.endswith("_mass") or k.endswith("_width")) else np.random.uniform(-1, 1)
    amp.set_params(new)

def dens(config, ps):
    amp = config.get_amplitude()
    data = config.data.cal_angle([tf.constant(p, dtype=tf.float64) for p in ps])
    return np.array(amp(data))

BAD = []
def compare(label, d_obs, d_exp):
    rel = np.abs(d_obs - d_exp) / np.abs(d_exp)
    bad = not np.all(np.isfinite(d_obs)) or not (np.nanmax(rel) < TOL)
    i = int(np.nanargmax(np.where(np.isfinite(rel), rel, np.inf))) if not np.all(np.isfinite(rel)) else int(np.argmax(rel))
    print("%-58s expected %.12g  observed %.12g  (event %d, max rel. diff %.3g) %s"
          % (label, d_exp[i], d_obs[i], i, np.nanmax(rel) if np.any(np.isfinite(rel)) else np.nan, "VIOLATION" if bad else "ok"))
    if bad:
        BAD.append(label)

def finish():
    if BAD:
        print("VIOLATION PRESENT:", BAD)
        sys.exit(1)
    print("no violation")
    sys.exit(0)

def mk(model, PA, JA):
    return {
     "data": {"dat_order": ["B", "C", "D", "E"]},
     "decay": {"A": [["V1", "V2", {"model": model}]], "V1": ["B", "C"], "V2": ["D", "E"]},
     "particle": {"$top": {"A": {"J": JA, "P": PA, "mass": 3.6}},
       "$finals": {"B": {"J": 0, "P": -1, "mass": 0.5}, "C": {"J": 0, "P": -1, "mass": 0.14},
                   "D": {"J": 0, "P": -1, "mass": 0.5}, "E": {"J": 0, "P": -1, "mass": 0.14}},
       "V1": {"J": 1, "P": -1, "mass": 0.9, "width": 0.2}, "V2": {"J": 1, "P": -1, "mass": 1.0, "width": 0.2}},
    }
ps = phsp(3.6, [0.5, 0.14, 0.5, 0.14], 30)
for model in ["default", "helicity_parity"]:
    for PA, JA in [(-1, 0), (-1, 1), (1, 1)]:
        np.random.seed(0)
        c = ConfigLoader(mk(model, PA, JA)); randomize(c)
        d0 = dens(c, ps)
        compare("%s J^P(A)=%d^%+d: boost+rotation" % (model, JA, PA), dens(c, apply(boost([0.3, -0.5, 0.4]) @ rot([1, -1, 0.3], 0.7), ps)), d0)
        compare("%s J^P(A)=%d^%+d: space inversion" % (model, JA, PA), dens(c, parity(ps)), d0)
        if model == "helicity_parity":
            dec = [d for d in c.get_amplitude().decay_group[0] if str(d.core) == "A"][0]
            H = np.array(dec.get_helicity_amp({}, {}))
            print("   H matrix relation H[-m1,-m2] = %+d H[m1,m2] max deviation: %.3g" % (dec.parity_term, np.max(np.abs(H[::-1, ::-1] - dec.parity_term * H))))
finish()
